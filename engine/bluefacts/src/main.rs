// bluefacts: rustc_private fact extractor.  Used as RUSTC_WORKSPACE_WRAPPER under
// `cargo +nightly check`; dumps the MIR (mir-opt-level=0) of every local body plus ADT, impl and
// const facts of the crate as one JSON file per compilation into $BLUEFACTS_OUT.
#![feature(rustc_private)]
#![allow(clippy::all)]

extern crate rustc_abi;
extern crate rustc_driver;
extern crate rustc_hir;
extern crate rustc_interface;
extern crate rustc_middle;
extern crate rustc_span;

use rustc_driver::{Callbacks, Compilation};
use rustc_hir::def::DefKind;
use rustc_hir::def_id::{DefId, LOCAL_CRATE};
use rustc_middle::mir::{
    self, AggregateKind, BasicBlock, Body, Const, ConstValue, Operand, Place, PlaceElem, Rvalue,
    StatementKind, TerminatorKind,
};
use rustc_middle::ty::print::{with_no_trimmed_paths, with_no_visible_paths, with_resolve_crate_name};
use rustc_middle::ty::{self, Instance, Ty, TyCtxt, TypingEnv};
use rustc_span::Span;
use std::fmt::Write as _;

// ---------------------------------------------------------------------------------------------
// tiny JSON value

enum J {
    Null,
    B(bool),
    I(i128),
    S(String),
    A(Vec<J>),
    O(Vec<(&'static str, J)>),
}

fn esc(s: &str, out: &mut String) {
    out.push('"');
    for c in s.chars() {
        match c {
            '"' => out.push_str("\\\""),
            '\\' => out.push_str("\\\\"),
            '\n' => out.push_str("\\n"),
            '\r' => out.push_str("\\r"),
            '\t' => out.push_str("\\t"),
            c if (c as u32) < 0x20 => {
                let _ = write!(out, "\\u{:04x}", c as u32);
            }
            c => out.push(c),
        }
    }
    out.push('"');
}

impl J {
    fn write(&self, out: &mut String) {
        match self {
            J::Null => out.push_str("null"),
            J::B(b) => out.push_str(if *b { "true" } else { "false" }),
            J::I(i) => {
                let _ = write!(out, "{}", i);
            }
            J::S(s) => esc(s, out),
            J::A(v) => {
                out.push('[');
                for (i, x) in v.iter().enumerate() {
                    if i > 0 {
                        out.push(',');
                    }
                    x.write(out);
                }
                out.push(']');
            }
            J::O(v) => {
                out.push('{');
                for (i, (k, x)) in v.iter().enumerate() {
                    if i > 0 {
                        out.push(',');
                    }
                    esc(k, out);
                    out.push(':');
                    x.write(out);
                }
                out.push('}');
            }
        }
    }
}

fn s<T: Into<String>>(x: T) -> J {
    J::S(x.into())
}

// ---------------------------------------------------------------------------------------------

struct Cx<'tcx> {
    tcx: TyCtxt<'tcx>,
}

impl<'tcx> Cx<'tcx> {
    fn path(&self, did: DefId) -> String {
        with_no_visible_paths!(with_resolve_crate_name!(with_no_trimmed_paths!(self.tcx.def_path_str(did))))
    }

    fn ty_str(&self, t: Ty<'tcx>) -> String {
        with_no_visible_paths!(with_resolve_crate_name!(with_no_trimmed_paths!(format!("{}", t))))
    }

    fn span(&self, sp: Span) -> J {
        let sm = self.tcx.sess.source_map();
        let exp = sp.from_expansion();
        // Use the call-site of a macro expansion so that file:line points at user code.
        let sp = sp.source_callsite();
        let lo = sm.lookup_char_pos(sp.lo());
        let file = match &lo.file.name {
            rustc_span::FileName::Real(r) => match r.local_path() {
                Some(p) => p.to_string_lossy().to_string(),
                None => format!("{:?}", r),
            },
            other => format!("{:?}", other),
        };
        J::A(vec![s(file), J::I(lo.line as i128), J::I(lo.col.0 as i128 + 1), J::B(exp)])
    }

    fn place(&self, body: &Body<'tcx>, p: &Place<'tcx>) -> J {
        let tcx = self.tcx;
        let mut proj = Vec::new();
        let mut pty = mir::PlaceTy::from_ty(body.local_decls[p.local].ty);
        for elem in p.projection.iter() {
            let j = match elem {
                PlaceElem::Deref => s("*"),
                PlaceElem::Field(f, fty) => {
                    let mut name = format!("{}", f.index());
                    let mut owner = String::new();
                    match pty.ty.kind() {
                        ty::Adt(adt, _) => {
                            let v = match pty.variant_index {
                                Some(vi) => adt.variant(vi),
                                None => {
                                    if adt.is_enum() {
                                        adt.variant(rustc_abi::VariantIdx::from_u32(0))
                                    } else {
                                        adt.non_enum_variant()
                                    }
                                }
                            };
                            if f.index() < v.fields.len() {
                                name = v.fields[f].name.to_string();
                            }
                            owner = self.path(adt.did());
                            if adt.is_enum() {
                                owner = format!("{}::{}", owner, v.name);
                            }
                        }
                        ty::Closure(..) => owner = "{closure}".to_string(),
                        ty::Tuple(..) => owner = "()".to_string(),
                        _ => {}
                    }
                    J::O(vec![("f", s(name)), ("of", s(owner)), ("ty", s(self.ty_str(fty)))])
                }
                PlaceElem::Index(l) => J::O(vec![("ix", J::I(l.index() as i128))]),
                PlaceElem::ConstantIndex { offset, from_end, .. } => {
                    J::O(vec![("cix", J::I(offset as i128)), ("from_end", J::B(from_end))])
                }
                PlaceElem::Subslice { from, to, from_end } => J::O(vec![
                    ("sub", J::A(vec![J::I(from as i128), J::I(to as i128), J::B(from_end)])),
                ]),
                PlaceElem::Downcast(name, vi) => J::O(vec![(
                    "dc",
                    s(match name {
                        Some(n) => n.to_string(),
                        None => format!("{}", vi.index()),
                    }),
                )]),
                _ => s("?"),
            };
            proj.push(j);
            pty = pty.projection_ty(tcx, elem);
        }
        J::O(vec![("l", J::I(p.local.index() as i128)), ("p", J::A(proj))])
    }

    fn konst(&self, body_did: DefId, c: &Const<'tcx>) -> J {
        let tcx = self.tcx;
        let tenv = TypingEnv::post_analysis(tcx, body_did);
        let ty = c.ty();
        let mut o: Vec<(&'static str, J)> = vec![("ty", s(self.ty_str(ty)))];
        if let ty::FnDef(did, args) = ty.kind() {
            o.push(("fn", s(self.path(*did))));
            o.push(("ga", s(format!("{:?}", args))));
            return J::O(o);
        }
        if let Const::Unevaluated(uv, _) = c {
            if let Some(p) = uv.promoted {
                o.push(("promoted", J::B(true)));
                // name the constants the promoted body mentions (e.g. `&TX_SEPARATOR`)
                let mut names: Vec<String> = Vec::new();
                let mut variants: Vec<String> = Vec::new();
                let mut pvals: Vec<i128> = Vec::new();
                if uv.def.is_local() {
                    let bodies = tcx.promoted_mir(uv.def);
                    if let Some(pb) = bodies.get(p) {
                        for bb in pb.basic_blocks.iter() {
                            for st in bb.statements.iter() {
                                if let StatementKind::Assign(b) = &st.kind {
                                    let mut ops: Vec<&Operand<'tcx>> = Vec::new();
                                    match &b.1 {
                                        Rvalue::Use(o, ..) | Rvalue::Cast(_, o, _) | Rvalue::Repeat(o, _) | Rvalue::UnaryOp(_, o) => ops.push(o),
                                        Rvalue::BinaryOp(_, ab) => { ops.push(&ab.0); ops.push(&ab.1); }
                                        Rvalue::Aggregate(kind, xs) => {
                                            // `&Enum::Variant` (a promoted unit variant used as a comparison operand)
                                            if let AggregateKind::Adt(adid, vidx, ..) = &**kind {
                                                let adt = tcx.adt_def(*adid);
                                                if adt.is_enum() {
                                                    variants.push(adt.variant(*vidx).name.to_string());
                                                }
                                            }
                                            for x in xs.iter() { ops.push(x); }
                                        }
                                        _ => {}
                                    }
                                    for op in ops {
                                        if let Operand::Constant(ic) = op {
                                            if let Const::Unevaluated(iuv, _) = &ic.const_ {
                                                if iuv.promoted.is_none() {
                                                    names.push(self.path(iuv.def));
                                                }
                                            }
                                        }
                                    }
                                }
                            }
                            // `(A..=B)` is promoted as a call RangeInclusive::new(const A, const B): name and evaluate the arguments
                            if let Some(term) = &bb.terminator {
                                if let TerminatorKind::Call { args, .. } = &term.kind {
                                    for a in args.iter() {
                                        if let Operand::Constant(ic) = &a.node {
                                            if let Const::Unevaluated(iuv, _) = &ic.const_ {
                                                if iuv.promoted.is_none() {
                                                    names.push(self.path(iuv.def));
                                                }
                                            }
                                            let ptenv = TypingEnv::post_analysis(tcx, uv.def);
                                            if matches!(ic.const_.ty().kind(), ty::Int(_) | ty::Uint(_)) {
                                                if let Some(si) = ic.const_.try_eval_scalar_int(tcx, ptenv) {
                                                    pvals.push(si.to_bits_unchecked() as i128);
                                                }
                                            }
                                        }
                                    }
                                }
                            }
                        }
                    }
                }
                if variants.len() == 1 {
                    o.push(("pvariant", s(variants[0].clone())));
                }
                if !pvals.is_empty() {
                    o.push(("pvals", J::A(pvals.into_iter().map(J::I).collect())));
                }
                if names.len() == 1 {
                    o.push(("named", s(names[0].clone())));
                } else if !names.is_empty() {
                    o.push(("pnames", J::A(names.into_iter().map(|n| s(n)).collect())));
                }
            } else {
                o.push(("named", s(self.path(uv.def))));
            }
        }
        let small = matches!(ty.kind(), ty::Bool | ty::Char | ty::Int(_) | ty::Uint(_));
        if small {
            if let Some(si) = c.try_eval_scalar_int(tcx, tenv) {
                let bits = si.to_bits_unchecked();
                let v: i128 = match ty.kind() {
                    ty::Int(_) => {
                        let size = si.size();
                        size.sign_extend(bits)
                    }
                    _ => bits as i128,
                };
                o.push(("v", J::I(v)));
            }
        } else if let ty::Ref(_, inner, _) = ty.kind() {
            if inner.is_str() {
                if let Const::Val(cv, _) = c {
                    if let Some(bytes) = cv.try_get_slice_bytes_for_diagnostics(tcx) {
                        o.push(("str", s(String::from_utf8_lossy(bytes).to_string())));
                    }
                }
            } else if let ty::Array(elem, _) = inner.kind() {
                // `&[u8; N]` / `&[u32; N]` literals (usually promoteds): read the bytes of the allocation
                if matches!(elem.kind(), ty::Uint(_) | ty::Int(_)) {
                    if let Ok(cv) = c.eval(tcx, tenv, rustc_span::DUMMY_SP) {
                        if let ConstValue::Scalar(rustc_middle::mir::interpret::Scalar::Ptr(ptr, _)) = cv {
                            let (prov, offset) = ptr.prov_and_relative_offset();
                            if let Some(rustc_middle::mir::interpret::GlobalAlloc::Memory(alloc)) = tcx.try_get_global_alloc(prov.alloc_id()) {
                                let a = alloc.inner();
                                let off = offset.bytes() as usize;
                                let len = a.len();
                                if len >= off && len - off <= 256 && a.provenance().ptrs().is_empty() {
                                    let bytes = a.inspect_with_uninit_and_ptr_outside_interpreter(off..len);
                                    let mut hex = String::new();
                                    for b in bytes {
                                        let _ = write!(hex, "{:02x}", b);
                                    }
                                    o.push(("bytes", s(hex)));
                                }
                            }
                        }
                    }
                }
            }
        }
        J::O(o)
    }

    fn operand(&self, body_did: DefId, body: &Body<'tcx>, op: &Operand<'tcx>) -> J {
        match op {
            Operand::Copy(p) => J::O(vec![("k", s("copy")), ("pl", self.place(body, p))]),
            Operand::Move(p) => J::O(vec![("k", s("move")), ("pl", self.place(body, p))]),
            Operand::Constant(c) => {
                J::O(vec![("k", s("const")), ("c", self.konst(body_did, &c.const_))])
            }
            #[allow(unreachable_patterns)]
            _ => J::O(vec![("k", s("other"))]),
        }
    }

    fn rvalue(&self, body_did: DefId, body: &Body<'tcx>, rv: &Rvalue<'tcx>) -> J {
        let opj = |o: &Operand<'tcx>| self.operand(body_did, body, o);
        match rv {
            Rvalue::Use(o, ..) => J::O(vec![("r", s("use")), ("a", opj(o))]),
            Rvalue::Repeat(o, _) => J::O(vec![("r", s("repeat")), ("a", opj(o))]),
            Rvalue::Ref(_, bk, p) => J::O(vec![
                ("r", s("ref")),
                ("mut", J::B(matches!(bk, mir::BorrowKind::Mut { .. }))),
                ("pl", self.place(body, p)),
            ]),
            Rvalue::RawPtr(_, p) => J::O(vec![("r", s("rawptr")), ("pl", self.place(body, p))]),
            Rvalue::Cast(kind, o, t) => J::O(vec![
                ("r", s("cast")),
                ("kind", s(format!("{:?}", kind))),
                ("a", opj(o)),
                ("ty", s(self.ty_str(*t))),
            ]),
            Rvalue::BinaryOp(op, ab) => J::O(vec![
                ("r", s("bin")),
                ("op", s(format!("{:?}", op))),
                ("a", opj(&ab.0)),
                ("b", opj(&ab.1)),
            ]),
            Rvalue::UnaryOp(op, a) => {
                J::O(vec![("r", s("un")), ("op", s(format!("{:?}", op))), ("a", opj(a))])
            }
            Rvalue::Discriminant(p) => J::O(vec![("r", s("discr")), ("pl", self.place(body, p))]),
            Rvalue::Aggregate(kind, ops) => {
                let mut o: Vec<(&'static str, J)> = vec![("r", s("agg"))];
                match &**kind {
                    AggregateKind::Adt(did, vi, _, _, _) => {
                        let adt = self.tcx.adt_def(*did);
                        let v = adt.variant(*vi);
                        o.push(("adt", s(self.path(*did))));
                        o.push(("variant", s(v.name.to_string())));
                        o.push((
                            "fields",
                            J::A(v.fields.iter().map(|f| s(f.name.to_string())).collect()),
                        ));
                    }
                    AggregateKind::Tuple => o.push(("tuple", J::B(true))),
                    AggregateKind::Array(_) => o.push(("array", J::B(true))),
                    AggregateKind::Closure(did, _) => o.push(("closure", s(self.path(*did)))),
                    AggregateKind::Coroutine(did, _) => o.push(("closure", s(self.path(*did)))),
                    AggregateKind::CoroutineClosure(did, _) => {
                        o.push(("closure", s(self.path(*did))))
                    }
                    AggregateKind::RawPtr(..) => o.push(("rawptr", J::B(true))),
                }
                o.push(("ops", J::A(ops.iter().map(|x| opj(x)).collect())));
                J::O(o)
            }
            Rvalue::CopyForDeref(p) => {
                J::O(vec![("r", s("use")), ("a", J::O(vec![("k", s("copy")), ("pl", self.place(body, p))]))])
            }
            other => J::O(vec![("r", s("other")), ("dbg", s(format!("{:?}", other)))]),
        }
    }

    fn body(&self, did: DefId, body: &Body<'tcx>) -> J {
        let tcx = self.tcx;
        let tenv = TypingEnv::post_analysis(tcx, did);
        let mut locals = Vec::new();
        for (_l, d) in body.local_decls.iter_enumerated() {
            locals.push(s(self.ty_str(d.ty)));
        }
        // user variable names (debug info) -> local
        let mut names = Vec::new();
        for vdi in body.var_debug_info.iter() {
            if let mir::VarDebugInfoContents::Place(p) = &vdi.value {
                names.push(J::A(vec![s(vdi.name.to_string()), self.place(body, p)]));
            }
        }
        let mut blocks = Vec::new();
        for (_bb, data) in body.basic_blocks.iter_enumerated() {
            let mut stmts = Vec::new();
            for st in data.statements.iter() {
                match &st.kind {
                    StatementKind::Assign(b) => {
                        let (pl, rv) = &**b;
                        stmts.push(J::O(vec![
                            ("s", s("=")),
                            ("lhs", self.place(body, pl)),
                            ("rv", self.rvalue(did, body, rv)),
                            ("sp", self.span(st.source_info.span)),
                        ]));
                    }
                    StatementKind::SetDiscriminant { place, variant_index } => {
                        stmts.push(J::O(vec![
                            ("s", s("setdiscr")),
                            ("lhs", self.place(body, place)),
                            ("v", J::I(variant_index.index() as i128)),
                        ]));
                    }
                    _ => {}
                }
            }
            let term = data.terminator();
            let bbj = |b: &BasicBlock| J::I(b.index() as i128);
            let t = match &term.kind {
                TerminatorKind::Goto { target } => J::O(vec![("t", s("goto")), ("to", bbj(target))]),
                TerminatorKind::SwitchInt { discr, targets } => {
                    let mut arms = Vec::new();
                    for (v, b) in targets.iter() {
                        arms.push(J::A(vec![J::I(v as i128), bbj(&b)]));
                    }
                    J::O(vec![
                        ("t", s("switch")),
                        ("discr", self.operand(did, body, discr)),
                        ("arms", J::A(arms)),
                        ("otherwise", bbj(&targets.otherwise())),
                    ])
                }
                TerminatorKind::Return => J::O(vec![("t", s("return"))]),
                TerminatorKind::Unreachable => J::O(vec![("t", s("unreachable"))]),
                TerminatorKind::UnwindResume
                | TerminatorKind::UnwindTerminate(_)
                | TerminatorKind::CoroutineDrop => J::O(vec![("t", s("unwind"))]),
                TerminatorKind::Drop { place, target, .. } => {
                    let pty = place.ty(&body.local_decls, tcx).ty;
                    J::O(vec![
                        ("t", s("drop")),
                        ("pl", self.place(body, place)),
                        ("ty", s(self.ty_str(pty))),
                        ("to", bbj(target)),
                        ("sp", self.span(term.source_info.span)),
                    ])
                }
                TerminatorKind::Call { func, args, destination, target, fn_span, .. } => {
                    let mut o: Vec<(&'static str, J)> = vec![("t", s("call"))];
                    if let Some((cdid, cargs)) = func.const_fn_def() {
                        o.push(("decl", s(self.path(cdid))));
                        o.push(("ga", s(with_no_visible_paths!(with_resolve_crate_name!(with_no_trimmed_paths!(format!("{:?}", cargs)))))));
                        // trait method?
                        if let Some(tr) = tcx.trait_of_assoc(cdid) {
                            o.push(("trait", s(self.path(tr))));
                        }
                        match Instance::try_resolve(tcx, tenv, cdid, cargs) {
                            Ok(Some(inst)) => {
                                let rd = inst.def_id();
                                let kind = match inst.def {
                                    ty::InstanceKind::Item(_) => "item",
                                    ty::InstanceKind::Virtual(..) => "virtual",
                                    ty::InstanceKind::Intrinsic(_) => "intrinsic",
                                    ty::InstanceKind::ClosureOnceShim { .. } => "closure_once",
                                    ty::InstanceKind::FnPtrShim(..) => "fnptr_shim",
                                    ty::InstanceKind::DropGlue(..) => "drop_glue",
                                    ty::InstanceKind::CloneShim(..) => "clone_shim",
                                    ty::InstanceKind::ReifyShim(..) => "reify",
                                    _ => "shim",
                                };
                                o.push(("callee", s(self.path(rd))));
                                o.push(("rk", s(kind)));
                                if rd.is_local() {
                                    o.push(("local", J::B(true)));
                                }
                            }
                            _ => {
                                o.push(("callee", J::Null));
                                o.push(("rk", s("unresolved")));
                            }
                        }
                    } else {
                        o.push(("indirect", self.operand(did, body, func)));
                        o.push(("rk", s("indirect")));
                    }
                    o.push((
                        "args",
                        J::A(args.iter().map(|a| self.operand(did, body, &a.node)).collect()),
                    ));
                    o.push(("dest", self.place(body, destination)));
                    o.push(("to", match target {
                        Some(t) => bbj(t),
                        None => J::Null,
                    }));
                    o.push(("sp", self.span(*fn_span)));
                    J::O(o)
                }
                TerminatorKind::Assert { cond, expected, target, msg, .. } => {
                    let mut o = vec![
                        ("t", s("assert")),
                        ("cond", self.operand(did, body, cond)),
                        ("expected", J::B(*expected)),
                        ("to", bbj(target)),
                        ("msg", s(format!("{:?}", msg).chars().take(80).collect::<String>())),
                        ("sp", self.span(term.source_info.span)),
                    ];
                    if let mir::AssertKind::BoundsCheck { len, index } = &**msg {
                        o.push(("bc_len", self.operand(did, body, len)));
                        o.push(("bc_index", self.operand(did, body, index)));
                    }
                    J::O(o)
                }
                TerminatorKind::FalseEdge { real_target, .. } => {
                    J::O(vec![("t", s("goto")), ("to", bbj(real_target))])
                }
                TerminatorKind::FalseUnwind { real_target, .. } => {
                    J::O(vec![("t", s("goto")), ("to", bbj(real_target))])
                }
                other => J::O(vec![("t", s("other")), ("dbg", s(format!("{:?}", other)))]),
            };
            blocks.push(J::O(vec![
                ("cleanup", J::B(data.is_cleanup)),
                ("st", J::A(stmts)),
                ("term", t),
                ("tsp", self.span(term.source_info.span)),
            ]));
        }
        let kind = tcx.def_kind(did);
        let mut o: Vec<(&'static str, J)> = vec![
            ("key", s(self.path(did))),
            ("kind", s(format!("{:?}", kind))),
            ("sp", self.span(body.span)),
            ("argc", J::I(body.arg_count as i128)),
            ("locals", J::A(locals)),
            ("names", J::A(names)),
            ("blocks", J::A(blocks)),
        ];
        if matches!(kind, DefKind::Closure) {
            o.push(("parent", s(self.path(tcx.parent(did)))));
        }
        if matches!(kind, DefKind::Fn | DefKind::AssocFn) {
            o.push(("pub", J::B(tcx.visibility(did).is_public())));
        }
        if let Some(impl_did) = tcx.impl_of_assoc(did) {
            let self_ty = tcx.type_of(impl_did).instantiate_identity().skip_norm_wip();
            o.push(("impl_self", s(self.ty_str(self_ty))));
            if let Some(tr) = tcx.impl_opt_trait_ref(impl_did) {
                let tr = tr.instantiate_identity().skip_norm_wip();
                o.push(("impl_trait", s(self.path(tr.def_id))));
            }
            o.push(("name", s(tcx.item_name(did).to_string())));
        } else if matches!(kind, DefKind::Fn | DefKind::AssocFn) {
            o.push(("name", s(tcx.item_name(did).to_string())));
            if let Some(tr) = tcx.trait_of_assoc(did) {
                o.push(("default_of_trait", s(self.path(tr))));
            }
        }
        J::O(o)
    }

    fn adts(&self) -> J {
        let tcx = self.tcx;
        let mut out = Vec::new();
        for ldid in tcx.hir_crate_items(()).definitions() {
            let did = ldid.to_def_id();
            let kind = tcx.def_kind(did);
            if !matches!(kind, DefKind::Struct | DefKind::Enum | DefKind::Union) {
                continue;
            }
            let adt = tcx.adt_def(did);
            let mut variants = Vec::new();
            for v in adt.variants().iter() {
                let mut fields = Vec::new();
                for f in v.fields.iter() {
                    let fty = tcx.type_of(f.did).instantiate_identity().skip_norm_wip();
                    fields.push(J::A(vec![s(f.name.to_string()), s(self.ty_str(fty)), J::B(f.vis.is_public())]));
                }
                let discr = match v.discr {
                    ty::VariantDiscr::Explicit(_) | ty::VariantDiscr::Relative(_) => {
                        if adt.is_enum() {
                            let vi = adt.variant_index_with_id(v.def_id);
                            let d = adt.discriminant_for_variant(tcx, vi);
                            J::I(d.val as i128)
                        } else {
                            J::Null
                        }
                    }
                };
                variants.push(J::O(vec![
                    ("name", s(v.name.to_string())),
                    ("fields", J::A(fields)),
                    ("discr", discr),
                ]));
            }
            out.push(J::O(vec![
                ("key", s(self.path(did))),
                ("kind", s(format!("{:?}", kind))),
                ("has_drop", J::B(adt.has_dtor(tcx))),
                ("variants", J::A(variants)),
                ("sp", self.span(tcx.def_span(did))),
            ]));
        }
        J::A(out)
    }

    fn impls(&self) -> J {
        let tcx = self.tcx;
        let mut out = Vec::new();
        for ldid in tcx.hir_crate_items(()).definitions() {
            let did = ldid.to_def_id();
            if !matches!(tcx.def_kind(did), DefKind::Impl { .. }) {
                continue;
            }
            let self_ty = tcx.type_of(did).instantiate_identity().skip_norm_wip();
            let mut o: Vec<(&'static str, J)> = vec![("self", s(self.ty_str(self_ty)))];
            if let Some(tr) = tcx.impl_opt_trait_ref(did) {
                let tr = tr.instantiate_identity().skip_norm_wip();
                o.push(("trait", s(self.path(tr.def_id))));
            }
            let mut items = Vec::new();
            for it in tcx.associated_items(did).in_definition_order() {
                if matches!(it.kind, ty::AssocKind::Fn { .. }) {
                    items.push(J::A(vec![s(it.name().to_string()), s(self.path(it.def_id))]));
                }
            }
            o.push(("fns", J::A(items)));
            out.push(J::O(o));
        }
        J::A(out)
    }

    fn consts(&self) -> J {
        let tcx = self.tcx;
        let mut out = Vec::new();
        for ldid in tcx.hir_crate_items(()).definitions() {
            let did = ldid.to_def_id();
            let kind = tcx.def_kind(did);
            if !matches!(kind, DefKind::Const { .. } | DefKind::AssocConst { .. }) {
                continue;
            }
            if tcx.generics_of(did).requires_monomorphization(tcx) {
                continue;
            }
            if let Some(tr) = tcx.trait_of_assoc(did) {
                let _ = tr;
                continue;
            }
            let ty = tcx.type_of(did).instantiate_identity().skip_norm_wip();
            let mut o: Vec<(&'static str, J)> =
                vec![("key", s(self.path(did))), ("ty", s(self.ty_str(ty)))];
            if let Ok(cv) = tcx.const_eval_poly(did) {
                match cv {
                    ConstValue::Scalar(sc) => {
                        if let Ok(si) = sc.try_to_scalar_int() {
                            let bits = si.to_bits_unchecked();
                            let v: i128 = match ty.kind() {
                                ty::Int(_) => si.size().sign_extend(bits),
                                _ => bits as i128,
                            };
                            o.push(("v", J::I(v)));
                        }
                    }
                    ConstValue::Indirect { alloc_id, offset } => {
                        let alloc = tcx.global_alloc(alloc_id).unwrap_memory();
                        let a = alloc.inner();
                        let len = a.len();
                        let off = offset.bytes() as usize;
                        if len - off <= 4096 && a.provenance().ptrs().is_empty() {
                            let bytes = a.inspect_with_uninit_and_ptr_outside_interpreter(off..len);
                            let mut hex = String::new();
                            for b in bytes {
                                let _ = write!(hex, "{:02x}", b);
                            }
                            o.push(("bytes", s(hex)));
                        }
                    }
                    ConstValue::Slice { .. } => {
                        if let Some(bytes) = cv.try_get_slice_bytes_for_diagnostics(tcx) {
                            o.push(("str", s(String::from_utf8_lossy(bytes).to_string())));
                        }
                    }
                    _ => {}
                }
            }
            out.push(J::O(o));
        }
        J::A(out)
    }
}

fn dump(tcx: TyCtxt<'_>) {
    let out_dir = match std::env::var("BLUEFACTS_OUT") {
        Ok(d) => d,
        Err(_) => return,
    };
    let cx = Cx { tcx };
    let crate_name = tcx.crate_name(LOCAL_CRATE).to_string();
    let mut fns = Vec::new();
    for ldid in tcx.mir_keys(()).iter() {
        let did = ldid.to_def_id();
        let kind = tcx.def_kind(did);
        if !matches!(kind, DefKind::Fn | DefKind::AssocFn | DefKind::Closure) {
            continue;
        }
        if !tcx.is_mir_available(did) {
            continue;
        }
        let body = tcx.optimized_mir(did);
        fns.push(cx.body(did, body));
    }
    let crate_types: Vec<J> =
        tcx.crate_types().iter().map(|t| s(format!("{:?}", t))).collect();
    let root = J::O(vec![
        ("crate", s(crate_name.clone())),
        ("crate_types", J::A(crate_types)),
        ("fns", J::A(fns)),
        ("adts", cx.adts()),
        ("impls", cx.impls()),
        ("consts", cx.consts()),
    ]);
    let mut text = String::new();
    root.write(&mut text);
    let id = tcx.stable_crate_id(LOCAL_CRATE).as_u64();
    let path = format!("{}/{}-{:016x}.json", out_dir, crate_name, id);
    let tmp = format!("{}.tmp{}", path, std::process::id());
    std::fs::write(&tmp, text).expect("bluefacts: write");
    std::fs::rename(&tmp, &path).expect("bluefacts: rename");
}

struct Cb;

impl Callbacks for Cb {
    fn after_analysis<'tcx>(
        &mut self,
        _c: &rustc_interface::interface::Compiler,
        tcx: TyCtxt<'tcx>,
    ) -> Compilation {
        dump(tcx);
        Compilation::Continue
    }
}

fn main() {
    let mut args: Vec<String> = std::env::args().collect();
    // invoked as: bluefacts <path-to-rustc> <rustc args...>
    if args.len() > 1 {
        args.remove(1);
    }
    let mut cb = Cb;
    rustc_driver::run_compiler(&args, &mut cb);
}
