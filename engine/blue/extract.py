"""Run the bluefacts driver over /repo (or a scratch copy) and cache the fact files by content hash."""
import fcntl
import hashlib
import json
import os
import shutil
import subprocess
import sys
import time

VERIF = os.path.dirname(os.path.dirname(os.path.dirname(os.path.abspath(__file__))))
WORK = os.path.join(VERIF, ".work")
POOL = int(os.environ.get("VERIF_TARGET_POOL", "4"))
DRIVER = os.path.join(VERIF, "engine", "bluefacts", "target", "release", "bluefacts")

# crates the quick tier extracts (the anchored crates of the 20 properties and what they build on)
QUICK_PKGS = ["lsmtk", "sst", "mani", "setsum", "sync42", "skipfree", "listfree", "buffertk",
              "prototk", "tuple_key", "tuple_key2", "utilz", "handled", "scrunch", "macarunes", "paxos_pb"]

# fact files that must exist after a quick extraction, with the function-count floors counted on
# the tree the rules were armed on (a driver that silently skipped a crate must not pass).
CRATE_FLOORS = {"lsmtk": 200, "sst": 600, "mani": 55, "setsum": 18, "sync42": 100, "skipfree": 25,
                "listfree": 10, "buffertk": 170, "prototk": 280, "tuple_key": 95, "tuple_key2": 90,
                "utilz": 10}


def _sysroot():
    return subprocess.check_output(["rustc", "+nightly", "--print", "sysroot"], text=True).strip()


def tree_hash(repo):
    """Hash of every source byte that can influence the build."""
    h = hashlib.sha256()
    paths = []
    for root, dirs, files in os.walk(repo):
        dirs[:] = sorted(d for d in dirs if d not in ("target", ".git"))
        for f in sorted(files):
            if f.endswith(".rs") or f in ("Cargo.toml", "Cargo.lock", "build.rs") or f.endswith(".toml"):
                paths.append(os.path.join(root, f))
    for p in paths:
        h.update(os.path.relpath(p, repo).encode())
        h.update(b"\0")
        try:
            with open(p, "rb") as fh:
                h.update(fh.read())
        except OSError:
            pass
        h.update(b"\0")
    with open(DRIVER, "rb") as fh:
        h.update(fh.read())
    return h.hexdigest()[:24]


def _members(repo):
    out = subprocess.check_output(
        ["cargo", "metadata", "--offline", "--no-deps", "--format-version", "1"], cwd=repo, text=True,
        env=dict(os.environ, CARGO_NET_OFFLINE="true"))
    return [p["name"] for p in json.loads(out)["packages"]]


def extract(repo="/repo", scope="quick", target_dir=None, verbose=True):
    """Returns (facts_dir, info).  scope: 'quick' (anchored crates) or 'full' (whole workspace)."""
    os.makedirs(WORK, exist_ok=True)
    if not os.path.exists(DRIVER):
        raise SystemExit("bluefacts driver not built: run ./setup.sh")
    t0 = time.time()
    th = tree_hash(repo)
    key = "%s-%s" % (th, scope)
    facts_root = os.path.join(WORK, "facts")
    os.makedirs(facts_root, exist_ok=True)
    out = os.path.join(facts_root, key)
    lock_path = os.path.join(facts_root, key + ".lock")
    with open(lock_path, "w") as lock:
        fcntl.flock(lock, fcntl.LOCK_EX)
        done = os.path.join(out, "DONE")
        if os.path.exists(done) and os.environ.get("VERIF_NO_CACHE") != "1":
            info = json.load(open(done))
            info["cache"] = "hit"
            info["wall_s"] = round(time.time() - t0, 2)
            return out, info
        # a full extraction subsumes a quick one
        if scope == "quick" and os.environ.get("VERIF_NO_CACHE") != "1":
            full = os.path.join(facts_root, "%s-full" % th, "DONE")
            if os.path.exists(full):
                info = json.load(open(full))
                info["cache"] = "hit(full)"
                info["wall_s"] = round(time.time() - t0, 2)
                return os.path.dirname(full), info
        if os.path.exists(out):
            shutil.rmtree(out)
        os.makedirs(out)
        # pick a free target directory from a small pool (each keeps compiled registry dependencies)
        tlock = None
        tdir = target_dir
        if tdir is None:
            pool = [os.path.join(WORK, "target")] + [os.path.join(WORK, "target-%d" % i) for i in range(1, POOL)]
            for cand in pool:
                os.makedirs(cand, exist_ok=True)
                fh = open(cand + ".lock", "w")
                try:
                    fcntl.flock(fh, fcntl.LOCK_EX | fcntl.LOCK_NB)
                    tlock, tdir = fh, cand
                    break
                except OSError:
                    fh.close()
            if tdir is None:
                tdir = pool[0]
                tlock = open(tdir + ".lock", "w")
                fcntl.flock(tlock, fcntl.LOCK_EX)
        os.makedirs(tdir, exist_ok=True)
        # cargo's freshness cache would skip the wrapper for up-to-date members: forget them
        fp = os.path.join(tdir, "debug", ".fingerprint")
        if os.path.isdir(fp):
            members = set(_members(repo))
            for d in os.listdir(fp):
                name = d.rsplit("-", 1)[0]
                if name in members or name.replace("-", "_") in members:
                    shutil.rmtree(os.path.join(fp, d), ignore_errors=True)
        env = dict(os.environ)
        env.update({
            "BLUEFACTS_OUT": out,
            "LD_LIBRARY_PATH": _sysroot() + "/lib",
            "RUSTFLAGS": "-Zmir-opt-level=0 -Awarnings",
            "RUSTC_WORKSPACE_WRAPPER": DRIVER,
            "CARGO_TARGET_DIR": tdir,
            "CARGO_NET_OFFLINE": "true",
        })
        cmd = ["cargo", "+nightly", "check", "--offline", "--lib", "--bins"]
        if scope == "quick":
            for p in QUICK_PKGS:
                cmd += ["-p", p]
        else:
            cmd += ["--workspace"]
        r = subprocess.run(cmd, cwd=repo, env=env, stdout=subprocess.PIPE, stderr=subprocess.STDOUT, text=True)
        if tlock is not None:
            tlock.close()
        if r.returncode != 0:
            sys.stderr.write(r.stdout[-6000:])
            shutil.rmtree(out, ignore_errors=True)
            raise SystemExit("bluefacts: the tree does not type-check (cargo check failed); no verdict")
        files = sorted(f for f in os.listdir(out) if f.endswith(".json"))
        info = {"tree_hash": th, "scope": scope, "files": len(files), "cache": "miss",
                "extract_s": round(time.time() - t0, 2)}
        with open(done, "w") as fh:
            json.dump(info, fh)
        # keep the cache small: drop older fact sets
        keep = {key, "%s-full" % th, "%s-quick" % th}
        for d in os.listdir(facts_root):
            if d.endswith(".lock"):
                continue
            if d not in keep:
                try:
                    age = time.time() - os.path.getmtime(os.path.join(facts_root, d))
                except OSError:
                    continue
                if age > 1800:
                    shutil.rmtree(os.path.join(facts_root, d), ignore_errors=True)
                    try:
                        os.unlink(os.path.join(facts_root, d + ".lock"))
                    except OSError:
                        pass
        info["wall_s"] = round(time.time() - t0, 2)
        return out, info
