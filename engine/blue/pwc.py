"""Exact tabulation of small pure integer functions that are piecewise constant.

A function  f: u64 -> integer  whose MIR uses its argument only in comparisons with constants, in `ilog2` /
`leading_zeros` / `checked_ilog2`, and then combines those results with arithmetic, is constant on every elementary
interval of the partition of [0, 2^64) induced by the comparison constants (c and c + 1) and by the powers of two.
Evaluating the MIR once per elementary interval therefore tabulates f over its whole domain -- a decision procedure for
this class, not sampling.  Anything outside the class (loops, unknown calls, the argument used in other arithmetic)
raises NotInClass and the caller fails closed."""
import re

from . import prim as P
from .facts import callee_skey

U64 = 1 << 64


class NotInClass(Exception):
    pass


def _consts(fn):
    out = set()

    def walk(o):
        if isinstance(o, dict):
            if o.get("k") == "const":
                v = o["c"].get("v")
                if isinstance(v, int) and not isinstance(v, bool) and 0 <= v < U64:
                    out.add(v)
            for x in o.values():
                walk(x)
        elif isinstance(o, list):
            for x in o:
                walk(x)
    for b in fn.blocks:
        walk(b.st)
        walk(b.term)
    return out


def breakpoints(fn):
    pts = {0, U64}
    for c in _consts(fn):
        for d in (c, c + 1):
            if 0 <= d <= U64:
                pts.add(d)
    for k in range(65):
        pts.add(1 << k)
    return sorted(pts)


def _input_dests(fn, input_call):
    rx = re.compile(input_call)
    return {b.term["dest"]["l"] for b in fn.blocks if b.term["t"] == "call" and rx.search(callee_skey(b.term) or "") and not b.term["dest"]["p"]}


def check_class(fn, input_call=None):
    """The argument may flow only into comparisons with constants and the interpreted monotone calls.  With `input_call`, the
    function's input is the value returned by the (pure accessor) call matching it, e.g. `self.field.get()`, instead of parameter 1."""
    if fn.argc != 1:
        raise NotInClass("not a unary function")
    tainted = {1}
    if input_call:
        tainted = _input_dests(fn, input_call)
        if not tainted:
            raise NotInClass("no call matching %s" % input_call)
    changed = True
    while changed:
        changed = False
        for b in fn.blocks:
            for st in b.st:
                if st["s"] != "=" or st["lhs"]["p"]:
                    continue
                rv = st["rv"]
                if rv["r"] in ("use", "cast") and rv["a"].get("k") in ("copy", "move") and rv["a"]["pl"]["l"] in tainted and not rv["a"]["pl"]["p"]:
                    if rv["r"] == "cast":
                        continue      # a cast of the raw argument is a new value: handled below as a use
                    if st["lhs"]["l"] not in tainted:
                        tainted.add(st["lhs"]["l"])
                        changed = True
    for b in fn.blocks:
        for st in b.st:
            if st["s"] != "=":
                continue
            rv = st["rv"]
            ops = [rv.get("a"), rv.get("b")] + list(rv.get("ops", ()))
            uses = [o for o in ops if isinstance(o, dict) and o.get("k") in ("copy", "move") and o["pl"]["l"] in tainted]
            if not uses:
                continue
            if rv["r"] == "use":
                continue
            if rv["r"] == "bin" and rv["op"] in ("Lt", "Le", "Gt", "Ge", "Eq", "Ne"):
                other = rv["b"] if uses[0] is rv["a"] else rv["a"]
                if other.get("k") == "const":
                    continue
            raise NotInClass("the argument is used in `%s`, which is not a comparison with a constant" % (rv.get("op") or rv["r"]))
        t = b.term
        if t["t"] == "call":
            for a in t["args"]:
                if a.get("k") in ("copy", "move") and a["pl"]["l"] in tainted:
                    ck = callee_skey(t) or ""
                    if input_call and re.search(input_call, ck):
                        continue
                    if not re.search(r"^core::num::(<impl u64>::)?(ilog2|leading_zeros|checked_ilog2|trailing_zeros|count_ones)$|^core::num::(ilog2|leading_zeros)$", ck):
                        raise NotInClass("the argument is passed to %s" % ck)
        if t["t"] == "switch" and t["discr"].get("k") in ("copy", "move") and t["discr"]["pl"]["l"] in tainted and not t["discr"]["pl"]["p"]:
            pass   # `match value { 0 => .., 1..=0xff => .. }` switches on the value itself: arms are constants (in the partition)


OPAQUE = ("opaque",)


def evaluate(fn, x, fuel=400, input_call=None, env0=None):
    """Interpret fn(x) for a concrete u64 x.  Pure integer MIR only.  `env0` gives the initial values of several parameters instead."""
    env = {1: x} if not input_call else {1: OPAQUE}
    if env0 is not None:
        env = dict(env0)
    bi = 0

    def val(o):
        if o.get("k") == "const":
            v = o["c"].get("v")
            if isinstance(v, bool):
                return int(v)
            if isinstance(v, int):
                return v
            raise NotInClass("constant %r" % (v,))
        pl = o["pl"]
        v = env.get(pl["l"])
        if v is None:
            raise NotInClass("read of an undefined local _%d" % pl["l"])
        if v is OPAQUE:
            raise NotInClass("the computation reads something other than the designated input")
        for e in pl["p"]:
            if isinstance(e, dict) and "f" in e and isinstance(v, tuple):
                v = v[int(e["f"])]
            else:
                raise NotInClass("projection")
        return v

    def width(ty):
        return {"u8": 8, "u16": 16, "u32": 32, "u64": 64, "usize": 64, "i32": 32, "i64": 64, "isize": 64, "bool": 1}.get(ty, 64)

    while fuel > 0:
        fuel -= 1
        b = fn.blocks[bi]
        for st in b.st:
            if st["s"] != "=":
                continue
            if st["lhs"]["p"]:
                raise NotInClass("projected store")
            l = st["lhs"]["l"]
            rv = st["rv"]
            r = rv["r"]
            if r == "use":
                env[l] = val(rv["a"])
            elif r == "cast":
                env[l] = val(rv["a"]) & ((1 << width(fn.locals[l])) - 1)
            elif r == "bin":
                a, c = val(rv["a"]), val(rv["b"])
                op = rv["op"]
                w = width(fn.locals[l]) if not op.endswith("WithOverflow") else 64
                m = (1 << w) - 1
                if op in ("Lt", "Le", "Gt", "Ge", "Eq", "Ne"):
                    env[l] = int({"Lt": a < c, "Le": a <= c, "Gt": a > c, "Ge": a >= c, "Eq": a == c, "Ne": a != c}[op])
                elif op in ("Add", "AddUnchecked"):
                    env[l] = (a + c) & m
                elif op in ("Sub", "SubUnchecked"):
                    env[l] = (a - c) & m
                elif op in ("Mul", "MulUnchecked"):
                    env[l] = (a * c) & m
                elif op == "Div":
                    if c == 0:
                        raise NotInClass("division by zero")
                    env[l] = a // c
                elif op == "Rem":
                    env[l] = a % c
                elif op in ("Shr", "ShrUnchecked"):
                    env[l] = a >> c
                elif op in ("Shl", "ShlUnchecked"):
                    env[l] = (a << c) & m
                elif op == "BitAnd":
                    env[l] = a & c
                elif op == "BitOr":
                    env[l] = a | c
                elif op in ("AddWithOverflow", "SubWithOverflow", "MulWithOverflow"):
                    full = {"A": a + c, "S": a - c, "M": a * c}[op[0]]
                    env[l] = (full & (U64 - 1), int(full < 0 or full >= U64))
                else:
                    raise NotInClass(op)
            elif r == "un" and rv["op"] == "Not":
                a = val(rv["a"])
                env[l] = (1 - a) if fn.locals[l] == "bool" else (~a) & ((1 << width(fn.locals[l])) - 1)
            elif r == "ref" and input_call:
                env[l] = OPAQUE
            else:
                raise NotInClass(r)
        t = b.term
        k = t["t"]
        if k == "return":
            return env.get(0)
        if k == "goto":
            bi = t["to"]
        elif k == "switch":
            d = val(t["discr"])
            nxt = t["otherwise"]
            for v, tgt in t["arms"]:
                if v == d:
                    nxt = tgt
                    break
            bi = nxt
        elif k == "assert":
            if val(t["cond"]) != int(t["expected"]):
                return ("panic", t.get("msg", "")[:40])
            bi = t["to"]
        elif k == "call":
            ck = callee_skey(t) or ""
            if input_call and re.search(input_call, ck):
                if t["dest"]["p"]:
                    raise NotInClass("projected call destination")
                env[t["dest"]["l"]] = x
                bi = t["to"]
                continue
            a = [val(o) for o in t["args"]]
            if re.search(r"ilog2$", ck) and "checked" not in ck:
                if a[0] == 0:
                    return ("panic", "ilog2(0)")
                r_ = a[0].bit_length() - 1
            elif re.search(r"leading_zeros$", ck):
                r_ = 64 - a[0].bit_length()
            elif re.search(r"trailing_zeros$", ck):
                r_ = (a[0] & -a[0]).bit_length() - 1 if a[0] else 64
            elif re.search(r"count_ones$", ck):
                r_ = bin(a[0]).count("1")
            elif re.search(r"^core::cmp::(max|Ord::max)$|^<u(8|16|32|64|size) as core::cmp::Ord>::max$", ck) and len(a) == 2:
                r_ = max(a)
            elif re.search(r"^core::cmp::(min|Ord::min)$|^<u(8|16|32|64|size) as core::cmp::Ord>::min$", ck) and len(a) == 2:
                r_ = min(a)
            else:
                raise NotInClass("call to %s" % ck)
            if t["dest"]["p"]:
                raise NotInClass("projected call destination")
            env[t["dest"]["l"]] = r_
            bi = t["to"]
        elif k == "drop":
            bi = t["to"]
        else:
            raise NotInClass(k)
    raise NotInClass("does not terminate within the step bound (loop?)")


def tabulate(fn, input_call=None):
    """[(lo, hi, value)] with hi inclusive, maximal runs merged: f(v) == value for every lo <= v <= hi."""
    check_class(fn, input_call)
    pts = breakpoints(fn)
    out = []
    for lo, nxt in zip(pts, pts[1:]):
        if lo >= U64:
            break
        hi = nxt - 1
        v = evaluate(fn, lo, input_call=input_call)
        if out and out[-1][2] == v and out[-1][1] + 1 == lo:
            out[-1] = (out[-1][0], hi, v)
        else:
            out.append((lo, hi, v))
    return out


def comparison_only(fn, params):
    """The given parameters are only copied, compared (with each other or constants) and passed to max/min: the function's result is
    then determined by the relative order of its arguments, so evaluating one representative per weak ordering decides it for all
    values.  Raises NotInClass otherwise."""
    tainted = set(params)
    changed = True
    while changed:
        changed = False
        for b in fn.blocks:
            for st in b.st:
                if st["s"] != "=" or st["lhs"]["p"]:
                    continue
                rv = st["rv"]
                if rv["r"] == "use" and rv["a"].get("k") in ("copy", "move") and rv["a"]["pl"]["l"] in tainted and st["lhs"]["l"] not in tainted:
                    tainted.add(st["lhs"]["l"])
                    changed = True
            t = b.term
            if t["t"] == "call" and re.search(r"cmp::(max|min|Ord::max|Ord::min)$|Ord>::(max|min)$", callee_skey(t) or "") and not t["dest"]["p"]:
                if any(a.get("k") in ("copy", "move") and a["pl"]["l"] in tainted for a in t["args"]) and t["dest"]["l"] not in tainted:
                    tainted.add(t["dest"]["l"])
                    changed = True
    for b in fn.blocks:
        for st in b.st:
            if st["s"] != "=":
                continue
            rv = st["rv"]
            ops = [rv.get("a"), rv.get("b")] + list(rv.get("ops", ()))
            if not any(isinstance(o, dict) and o.get("k") in ("copy", "move") and o["pl"]["l"] in tainted for o in ops):
                continue
            if rv["r"] == "use" or (rv["r"] == "bin" and rv["op"] in ("Lt", "Le", "Gt", "Ge", "Eq", "Ne")):
                continue
            raise NotInClass("an argument is used in `%s`" % (rv.get("op") or rv["r"]))
        t = b.term
        if t["t"] == "call":
            if any(a.get("k") in ("copy", "move") and a["pl"]["l"] in tainted for a in t["args"]) and \
                    not re.search(r"cmp::(max|min|Ord::max|Ord::min)$|Ord>::(max|min)$", callee_skey(t) or ""):
                raise NotInClass("an argument is passed to %s" % callee_skey(t))
