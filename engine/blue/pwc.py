"""Exact tabulation of small pure integer functions that are piecewise constant.

A function  f: u64 -> integer  whose MIR uses its argument only in comparisons with constants, in `ilog2` /
`leading_zeros` / `checked_ilog2`, and then combines those results with arithmetic, is constant on every elementary
interval of the partition of [0, 2^64) induced by the comparison constants (c and c + 1) and by the powers of two.
Evaluating the MIR once per elementary interval therefore tabulates f over its whole domain -- a decision procedure for
this class, not sampling.  Anything outside the class (loops, unknown calls, the argument used in other arithmetic)
raises NotInClass and the caller fails closed."""
import re

from . import prim as P
from .facts import callee_skey

U64 = 1 << 64


class NotInClass(Exception):
    pass


def _consts(fn):
    out = set()

    def walk(o):
        if isinstance(o, dict):
            if o.get("k") == "const":
                v = o["c"].get("v")
                if isinstance(v, int) and not isinstance(v, bool) and 0 <= v < U64:
                    out.add(v)
            for x in o.values():
                walk(x)
        elif isinstance(o, list):
            for x in o:
                walk(x)
    for b in fn.blocks:
        walk(b.st)
        walk(b.term)
    return out


def breakpoints(fn):
    pts = {0, U64}
    for c in _consts(fn):
        for d in (c, c + 1):
            if 0 <= d <= U64:
                pts.add(d)
    for k in range(65):
        pts.add(1 << k)
    return sorted(pts)


def _input_dests(fn, input_call):
    rx = re.compile(input_call)
    return {b.term["dest"]["l"] for b in fn.blocks if b.term["t"] == "call" and rx.search(callee_skey(b.term) or "") and not b.term["dest"]["p"]}


def check_class(fn, input_call=None):
    """The argument may flow only into comparisons with constants and the interpreted monotone calls.  With `input_call`, the
    function's input is the value returned by the (pure accessor) call matching it, e.g. `self.field.get()`, instead of parameter 1."""
    if fn.argc != 1:
        raise NotInClass("not a unary function")
    tainted = {1}
    if input_call:
        tainted = _input_dests(fn, input_call)
        if not tainted:
            raise NotInClass("no call matching %s" % input_call)
    changed = True
    while changed:
        changed = False
        for b in fn.blocks:
            for st in b.st:
                if st["s"] != "=" or st["lhs"]["p"]:
                    continue
                rv = st["rv"]
                if rv["r"] in ("use", "cast") and rv["a"].get("k") in ("copy", "move") and rv["a"]["pl"]["l"] in tainted and not rv["a"]["pl"]["p"]:
                    if rv["r"] == "cast":
                        continue      # a cast of the raw argument is a new value: handled below as a use
                    if st["lhs"]["l"] not in tainted:
                        tainted.add(st["lhs"]["l"])
                        changed = True
    for b in fn.blocks:
        for st in b.st:
            if st["s"] != "=":
                continue
            rv = st["rv"]
            ops = [rv.get("a"), rv.get("b")] + list(rv.get("ops", ()))
            uses = [o for o in ops if isinstance(o, dict) and o.get("k") in ("copy", "move") and o["pl"]["l"] in tainted]
            if not uses:
                continue
            if rv["r"] == "use":
                continue
            if rv["r"] == "bin" and rv["op"] in ("Lt", "Le", "Gt", "Ge", "Eq", "Ne"):
                other = rv["b"] if uses[0] is rv["a"] else rv["a"]
                if other.get("k") == "const":
                    continue
            raise NotInClass("the argument is used in `%s`, which is not a comparison with a constant" % (rv.get("op") or rv["r"]))
        t = b.term
        if t["t"] == "call":
            for a in t["args"]:
                if a.get("k") in ("copy", "move") and a["pl"]["l"] in tainted:
                    ck = callee_skey(t) or ""
                    if input_call and re.search(input_call, ck):
                        continue
                    if not re.search(r"^core::num::(<impl u64>::)?(ilog2|leading_zeros|checked_ilog2|trailing_zeros|count_ones)$|^core::num::(ilog2|leading_zeros)$", ck):
                        raise NotInClass("the argument is passed to %s" % ck)
        if t["t"] == "switch" and t["discr"].get("k") in ("copy", "move") and t["discr"]["pl"]["l"] in tainted and not t["discr"]["pl"]["p"]:
            pass   # `match value { 0 => .., 1..=0xff => .. }` switches on the value itself: arms are constants (in the partition)


OPAQUE = ("opaque",)


def evaluate(fn, x, fuel=400, input_call=None, env0=None):
    """Interpret fn(x) for a concrete u64 x.  Pure integer MIR only.  `env0` gives the initial values of several parameters instead."""
    env = {1: x} if not input_call else {1: OPAQUE}
    if env0 is not None:
        env = dict(env0)
    bi = 0

    def val(o):
        if o.get("k") == "const":
            v = o["c"].get("v")
            if isinstance(v, bool):
                return int(v)
            if isinstance(v, int):
                return v
            raise NotInClass("constant %r" % (v,))
        pl = o["pl"]
        v = env.get(pl["l"])
        if v is None:
            raise NotInClass("read of an undefined local _%d" % pl["l"])
        if v is OPAQUE:
            raise NotInClass("the computation reads something other than the designated input")
        for e in pl["p"]:
            if isinstance(e, dict) and "f" in e and isinstance(v, tuple):
                v = v[int(e["f"])]
            else:
                raise NotInClass("projection")
        return v

    def width(ty):
        return {"u8": 8, "u16": 16, "u32": 32, "u64": 64, "usize": 64, "i32": 32, "i64": 64, "isize": 64, "bool": 1}.get(ty, 64)

    while fuel > 0:
        fuel -= 1
        b = fn.blocks[bi]
        for st in b.st:
            if st["s"] != "=":
                continue
            if st["lhs"]["p"]:
                raise NotInClass("projected store")
            l = st["lhs"]["l"]
            rv = st["rv"]
            r = rv["r"]
            if r == "use":
                env[l] = val(rv["a"])
            elif r == "cast":
                env[l] = val(rv["a"]) & ((1 << width(fn.locals[l])) - 1)
            elif r == "bin":
                a, c = val(rv["a"]), val(rv["b"])
                op = rv["op"]
                w = width(fn.locals[l]) if not op.endswith("WithOverflow") else 64
                m = (1 << w) - 1
                if op in ("Lt", "Le", "Gt", "Ge", "Eq", "Ne"):
                    env[l] = int({"Lt": a < c, "Le": a <= c, "Gt": a > c, "Ge": a >= c, "Eq": a == c, "Ne": a != c}[op])
                elif op in ("Add", "AddUnchecked"):
                    env[l] = (a + c) & m
                elif op in ("Sub", "SubUnchecked"):
                    env[l] = (a - c) & m
                elif op in ("Mul", "MulUnchecked"):
                    env[l] = (a * c) & m
                elif op == "Div":
                    if c == 0:
                        raise NotInClass("division by zero")
                    env[l] = a // c
                elif op == "Rem":
                    env[l] = a % c
                elif op in ("Shr", "ShrUnchecked"):
                    env[l] = a >> c
                elif op in ("Shl", "ShlUnchecked"):
                    env[l] = (a << c) & m
                elif op == "BitAnd":
                    env[l] = a & c
                elif op == "BitOr":
                    env[l] = a | c
                elif op in ("AddWithOverflow", "SubWithOverflow", "MulWithOverflow"):
                    full = {"A": a + c, "S": a - c, "M": a * c}[op[0]]
                    env[l] = (full & (U64 - 1), int(full < 0 or full >= U64))
                else:
                    raise NotInClass(op)
            elif r == "un" and rv["op"] == "Not":
                a = val(rv["a"])
                env[l] = (1 - a) if fn.locals[l] == "bool" else (~a) & ((1 << width(fn.locals[l])) - 1)
            elif r == "ref" and input_call:
                env[l] = OPAQUE
            else:
                raise NotInClass(r)
        t = b.term
        k = t["t"]
        if k == "return":
            return env.get(0)
        if k == "goto":
            bi = t["to"]
        elif k == "switch":
            d = val(t["discr"])
            nxt = t["otherwise"]
            for v, tgt in t["arms"]:
                if v == d:
                    nxt = tgt
                    break
            bi = nxt
        elif k == "assert":
            if val(t["cond"]) != int(t["expected"]):
                return ("panic", t.get("msg", "")[:40])
            bi = t["to"]
        elif k == "call":
            ck = callee_skey(t) or ""
            if input_call and re.search(input_call, ck):
                if t["dest"]["p"]:
                    raise NotInClass("projected call destination")
                env[t["dest"]["l"]] = x
                bi = t["to"]
                continue
            a = [val(o) for o in t["args"]]
            if re.search(r"ilog2$", ck) and "checked" not in ck:
                if a[0] == 0:
                    return ("panic", "ilog2(0)")
                r_ = a[0].bit_length() - 1
            elif re.search(r"leading_zeros$", ck):
                r_ = 64 - a[0].bit_length()
            elif re.search(r"trailing_zeros$", ck):
                r_ = (a[0] & -a[0]).bit_length() - 1 if a[0] else 64
            elif re.search(r"count_ones$", ck):
                r_ = bin(a[0]).count("1")
            elif re.search(r"^core::cmp::(max|Ord::max)$|^<u(8|16|32|64|size) as core::cmp::Ord>::max$", ck) and len(a) == 2:
                r_ = max(a)
            elif re.search(r"^core::cmp::(min|Ord::min)$|^<u(8|16|32|64|size) as core::cmp::Ord>::min$", ck) and len(a) == 2:
                r_ = min(a)
            else:
                raise NotInClass("call to %s" % ck)
            if t["dest"]["p"]:
                raise NotInClass("projected call destination")
            env[t["dest"]["l"]] = r_
            bi = t["to"]
        elif k == "drop":
            bi = t["to"]
        else:
            raise NotInClass(k)
    raise NotInClass("does not terminate within the step bound (loop?)")


def tabulate(fn, input_call=None):
    """[(lo, hi, value)] with hi inclusive, maximal runs merged: f(v) == value for every lo <= v <= hi."""
    check_class(fn, input_call)
    pts = breakpoints(fn)
    out = []
    for lo, nxt in zip(pts, pts[1:]):
        if lo >= U64:
            break
        hi = nxt - 1
        v = evaluate(fn, lo, input_call=input_call)
        if out and out[-1][2] == v and out[-1][1] + 1 == lo:
            out[-1] = (out[-1][0], hi, v)
        else:
            out.append((lo, hi, v))
    return out


def comparison_only(fn, params):
    """The given parameters are only copied, compared (with each other or constants) and passed to max/min: the function's result is
    then determined by the relative order of its arguments, so evaluating one representative per weak ordering decides it for all
    values.  Raises NotInClass otherwise."""
    tainted = set(params)
    changed = True
    while changed:
        changed = False
        for b in fn.blocks:
            for st in b.st:
                if st["s"] != "=" or st["lhs"]["p"]:
                    continue
                rv = st["rv"]
                if rv["r"] == "use" and rv["a"].get("k") in ("copy", "move") and rv["a"]["pl"]["l"] in tainted and st["lhs"]["l"] not in tainted:
                    tainted.add(st["lhs"]["l"])
                    changed = True
            t = b.term
            if t["t"] == "call" and re.search(r"cmp::(max|min|Ord::max|Ord::min)$|Ord>::(max|min)$", callee_skey(t) or "") and not t["dest"]["p"]:
                if any(a.get("k") in ("copy", "move") and a["pl"]["l"] in tainted for a in t["args"]) and t["dest"]["l"] not in tainted:
                    tainted.add(t["dest"]["l"])
                    changed = True
    for b in fn.blocks:
        for st in b.st:
            if st["s"] != "=":
                continue
            rv = st["rv"]
            ops = [rv.get("a"), rv.get("b")] + list(rv.get("ops", ()))
            if not any(isinstance(o, dict) and o.get("k") in ("copy", "move") and o["pl"]["l"] in tainted for o in ops):
                continue
            if rv["r"] == "use" or (rv["r"] == "bin" and rv["op"] in ("Lt", "Le", "Gt", "Ge", "Eq", "Ne")):
                continue
            raise NotInClass("an argument is used in `%s`" % (rv.get("op") or rv["r"]))
        t = b.term
        if t["t"] == "call":
            if any(a.get("k") in ("copy", "move") and a["pl"]["l"] in tainted for a in t["args"]) and \
                    not re.search(r"cmp::(max|min|Ord::max|Ord::min)$|Ord>::(max|min)$", callee_skey(t) or ""):
                raise NotInClass("an argument is passed to %s" % callee_skey(t))


# --------------------------------------------------------------------------------------------------
# Piecewise translations:  f(x) = x + c_k  (wrapping) on each piece, c_k chosen by comparisons of x with constants.
#
# Class (checked by `translation_class`): every local is of kind
#     X  the argument itself, copied or cast without narrowing,
#     P  piecewise constant in x (constants, results of comparisons of an X with a constant, arithmetic among P values, and any
#        value chosen by control flow that depends on such comparisons),
#     L  an X or L plus/minus a P (wrapping or checked), or a cast of an L.
# Comparisons may involve an X and a constant only.  On an elementary interval of the partition of the argument's domain by the
# comparison constants (in both signed and unsigned reading) every comparison has one outcome, so every P is constant there and the
# result, if L, is x + c for one c: evaluating one point per interval tabulates the function exactly.

INT_TYPES = {"u8": (8, False), "u16": (16, False), "u32": (32, False), "u64": (64, False), "usize": (64, False), "u128": (128, False),
             "i8": (8, True), "i16": (16, True), "i32": (32, True), "i64": (64, True), "isize": (64, True), "i128": (128, True), "bool": (1, False)}


def wrap(v, ty):
    bits, signed = INT_TYPES[ty]
    v &= (1 << bits) - 1
    if signed and v >> (bits - 1):
        v -= 1 << bits
    return v


def _op_ty(fn, o):
    if o.get("k") == "const":
        return (o["c"].get("ty") or "").replace("const ", "")
    return fn.locals[o["pl"]["l"]]


WRAPPING = re.compile(r"^core::num::(?:<impl \w+>::)?(wrapping_add|wrapping_sub)$")


def translation_class(fn):
    if fn.argc != 1 or fn.locals[1] not in INT_TYPES:
        raise NotInClass("not a unary integer function")
    kind = {1: "X"}

    def k_of(o):
        if o.get("k") == "const":
            return "P"
        if o["pl"]["p"]:
            base = kind.get(o["pl"]["l"])
            return base          # field 0 of a checked-arithmetic pair has the pair's kind
        return kind.get(o["pl"]["l"])

    def join(a, b):
        if a is None:
            return b
        if b is None or a == b:
            return a
        if {a, b} == {"X", "L"}:
            return "L"
        raise NotInClass("a local holds both a piecewise constant and an argument-dependent value")

    changed = True
    rounds = 0
    while changed:
        changed = False
        rounds += 1
        if rounds > 50:
            raise NotInClass("kind inference does not converge")
        for b in fn.blocks:
            for st in b.st:
                if st["s"] != "=":
                    continue
                if st["lhs"]["p"]:
                    raise NotInClass("projected store")
                rv, l = st["rv"], st["lhs"]["l"]
                new = None
                if rv["r"] == "use":
                    new = k_of(rv["a"])
                elif rv["r"] == "cast":
                    ka = k_of(rv["a"])
                    if ka in ("X", "L"):
                        sb, db = INT_TYPES.get(_op_ty(fn, rv["a"]), (0, 0))[0], INT_TYPES.get(fn.locals[l], (0, 0))[0]
                        if not sb or not db or db < sb:
                            raise NotInClass("the argument is narrowed by a cast")
                        if ka == "X" and db > sb:
                            ka = "X"
                    new = ka
                elif rv["r"] == "bin":
                    ka, kb = k_of(rv["a"]), k_of(rv["b"])
                    if ka is None or kb is None:
                        continue
                    op = rv["op"]
                    if op in ("Lt", "Le", "Gt", "Ge", "Eq", "Ne"):
                        if {ka, kb} == {"P"}:
                            new = "P"
                        elif (ka == "X" and rv["b"].get("k") == "const") or (kb == "X" and rv["a"].get("k") == "const"):
                            new = "P"
                        else:
                            raise NotInClass("a comparison involves a translated value or two non-constants")
                    elif op.rstrip("WithOverflow").rstrip("Unchecked") in ("Add", "Sub") or op in ("Add", "Sub", "AddWithOverflow", "SubWithOverflow", "AddUnchecked", "SubUnchecked"):
                        if {ka, kb} == {"P"}:
                            new = "P"
                        elif ka in ("X", "L") and kb == "P":
                            new = "L"
                        elif kb in ("X", "L") and ka == "P" and op.startswith("Add"):
                            new = "L"
                        else:
                            raise NotInClass("`%s` of two argument-dependent values" % op)
                    else:
                        if {ka, kb} == {"P"}:
                            new = "P"
                        else:
                            raise NotInClass("the argument is used in `%s`" % op)
                elif rv["r"] == "un":
                    ka = k_of(rv["a"])
                    if ka == "P":
                        new = "P"
                    elif ka is not None:
                        raise NotInClass("the argument is used in unary `%s`" % rv["op"])
                elif rv["r"] == "agg" and not rv.get("ops"):
                    new = "P"
                else:
                    raise NotInClass(rv["r"])
                if new is not None:
                    j = join(kind.get(l), new)
                    if j != kind.get(l):
                        kind[l] = j
                        changed = True
            t = b.term
            if t["t"] == "call":
                ck = callee_skey(t) or ""
                m = WRAPPING.match(ck)
                if not m:
                    raise NotInClass("call to %s" % ck)
                if t["dest"]["p"]:
                    raise NotInClass("projected call destination")
                ka, kb = k_of(t["args"][0]), k_of(t["args"][1])
                if ka is None or kb is None:
                    continue
                if {ka, kb} == {"P"}:
                    new = "P"
                elif ka in ("X", "L") and kb == "P":
                    new = "L"
                elif kb in ("X", "L") and ka == "P" and m.group(1) == "wrapping_add":
                    new = "L"
                else:
                    raise NotInClass("%s of two argument-dependent values" % m.group(1))
                j = join(kind.get(t["dest"]["l"]), new)
                if j != kind.get(t["dest"]["l"]):
                    kind[t["dest"]["l"]] = j
                    changed = True
            elif t["t"] == "switch":
                kd = k_of(t["discr"])
                if kd in ("X", "L"):
                    raise NotInClass("a switch on the argument itself")
            elif t["t"] not in ("goto", "return", "assert", "drop", "unreachable"):
                raise NotInClass(t["t"])
    if kind.get(0) is None:
        raise NotInClass("the result's kind could not be inferred")
    return kind


def evaluate_typed(fn, x, fuel=300):
    """Type-aware interpretation (signed and unsigned integers of every width) of the translation class."""
    env = {1: x}
    bi = 0

    def val(o):
        if o.get("k") == "const":
            v = o["c"].get("v")
            if isinstance(v, bool):
                return int(v)
            if isinstance(v, int):
                return v
            raise NotInClass("constant %r" % (v,))
        v = env.get(o["pl"]["l"])
        if v is None:
            raise NotInClass("read of an undefined local")
        for e in o["pl"]["p"]:
            if isinstance(e, dict) and "f" in e and isinstance(v, tuple):
                v = v[int(e["f"])]
            else:
                raise NotInClass("projection")
        return v

    while fuel > 0:
        fuel -= 1
        b = fn.blocks[bi]
        for st in b.st:
            if st["s"] != "=":
                continue
            l, rv = st["lhs"]["l"], st["rv"]
            ty = fn.locals[l]
            if rv["r"] == "use":
                env[l] = val(rv["a"])
            elif rv["r"] == "cast":
                if ty not in INT_TYPES:
                    raise NotInClass("cast to %s" % ty)
                env[l] = wrap(val(rv["a"]), ty)
            elif rv["r"] == "bin":
                a, c, op = val(rv["a"]), val(rv["b"]), rv["op"]
                if op in ("Lt", "Le", "Gt", "Ge", "Eq", "Ne"):
                    env[l] = int({"Lt": a < c, "Le": a <= c, "Gt": a > c, "Ge": a >= c, "Eq": a == c, "Ne": a != c}[op])
                elif op in ("Add", "Sub", "AddUnchecked", "SubUnchecked", "AddWithOverflow", "SubWithOverflow"):
                    oty = _op_ty(fn, rv["a"])
                    if oty not in INT_TYPES:
                        raise NotInClass("arithmetic on %s" % oty)
                    full = a + c if op.startswith("Add") else a - c
                    w_ = wrap(full, oty)
                    if op.endswith("WithOverflow"):
                        env[l] = (w_, int(w_ != full))
                    else:
                        if w_ != full:
                            return ("panic", "overflow")
                        env[l] = w_
                elif op in ("BitAnd", "BitOr", "BitXor"):
                    env[l] = {"BitAnd": a & c, "BitOr": a | c, "BitXor": a ^ c}[op]
                else:
                    raise NotInClass(op)
            elif rv["r"] == "un" and rv["op"] == "Not":
                a = val(rv["a"])
                env[l] = (1 - a) if ty == "bool" else wrap(~a, ty)
            elif rv["r"] == "agg" and not rv.get("ops"):
                env[l] = 0
            else:
                raise NotInClass(rv["r"])
        t = b.term
        k = t["t"]
        if k == "return":
            return env.get(0)
        if k == "goto":
            bi = t["to"]
        elif k == "switch":
            d = val(t["discr"])
            nxt = t["otherwise"]
            for v, tgt in t["arms"]:
                if v == d:
                    nxt = tgt
                    break
            bi = nxt
        elif k == "assert":
            if val(t["cond"]) != int(t["expected"]):
                return ("panic", t.get("msg", "")[:40])
            bi = t["to"]
        elif k == "call":
            m = WRAPPING.match(callee_skey(t) or "")
            if not m:
                raise NotInClass("call")
            a = [val(o) for o in t["args"]]
            dty = fn.locals[t["dest"]["l"]]
            env[t["dest"]["l"]] = wrap(a[0] + a[1] if m.group(1) == "wrapping_add" else a[0] - a[1], dty)
            bi = t["to"]
        elif k == "drop":
            bi = t["to"]
        else:
            raise NotInClass(k)
    raise NotInClass("does not terminate within the step bound")


def tabulate_translation(fn):
    """[(lo, hi, c)]: for lo <= x <= hi (x in the argument type's own range, signed types signed), f(x) == wrap(x + c) in the result
    type; or (lo, hi, ('const', v)) where the result does not depend on x."""
    kind = translation_class(fn)
    aty, rty = fn.locals[1], fn.locals[0]
    if rty not in INT_TYPES:
        raise NotInClass("result type %s" % rty)
    bits, signed = INT_TYPES[aty]
    dlo, dhi = (-(1 << (bits - 1)), (1 << (bits - 1)) - 1) if signed else (0, (1 << bits) - 1)
    pts = {dlo, dhi + 1, 0, 1 << (bits - 1)}
    for c in _all_int_consts(fn):
        for d in (c, c + 1, c - (1 << bits), c + 1 - (1 << bits), c + (1 << bits), c + 1 + (1 << bits)):
            pts.add(d)
    pts = sorted(p for p in pts if dlo <= p <= dhi + 1)
    out = []
    for lo, nxt in zip(pts, pts[1:]):
        hi = nxt - 1
        v = evaluate_typed(fn, lo)
        if isinstance(v, tuple):
            piece = ("panic",)
        elif kind[0] == "P":
            piece = ("const", v)
        else:
            piece = wrap(v - lo, rty) if INT_TYPES[rty][0] >= bits else None
            if piece is None:
                raise NotInClass("result narrower than the argument")
            v2 = evaluate_typed(fn, hi)
            if isinstance(v2, tuple) or wrap(v2 - hi, rty) != piece:
                raise NotInClass("internal: the function is not a translation on [%d, %d]" % (lo, hi))
        if out and out[-1][2] == piece and out[-1][1] + 1 == lo:
            out[-1] = (out[-1][0], hi, piece)
        else:
            out.append((lo, hi, piece))
    return out


def _all_int_consts(fn):
    out = set()

    def walk(o):
        if isinstance(o, dict):
            if o.get("k") == "const":
                v = o["c"].get("v")
                if isinstance(v, int) and not isinstance(v, bool):
                    out.add(v)
            for x in o.values():
                walk(x)
        elif isinstance(o, list):
            for x in o:
                walk(x)
    for b in fn.blocks:
        walk(b.st)
        walk(b.term)
    return out
