"""Exact tabulation of small pure integer functions that are piecewise constant.

A function  f: u64 -> integer  whose MIR uses its argument only in comparisons with constants, in `ilog2` /
`leading_zeros` / `checked_ilog2`, and then combines those results with arithmetic, is constant on every elementary
interval of the partition of [0, 2^64) induced by the comparison constants (c and c + 1) and by the powers of two.
Evaluating the MIR once per elementary interval therefore tabulates f over its whole domain -- a decision procedure for
this class, not sampling.  Anything outside the class (loops, unknown calls, the argument used in other arithmetic)
raises NotInClass and the caller fails closed."""
import re

from . import prim as P
from .facts import callee_skey

U64 = 1 << 64


class NotInClass(Exception):
    pass


def _consts(fn):
    out = set()

    def walk(o):
        if isinstance(o, dict):
            if o.get("k") == "const":
                v = o["c"].get("v")
                if isinstance(v, int) and not isinstance(v, bool) and 0 <= v < U64:
                    out.add(v)
            for x in o.values():
                walk(x)
        elif isinstance(o, list):
            for x in o:
                walk(x)
    for b in fn.blocks:
        walk(b.st)
        walk(b.term)
    return out


def breakpoints(fn):
    pts = {0, U64}
    for c in _consts(fn):
        for d in (c, c + 1):
            if 0 <= d <= U64:
                pts.add(d)
    for k in range(65):
        pts.add(1 << k)
    return sorted(pts)


def check_class(fn):
    """The argument may flow only into comparisons with constants and the interpreted monotone calls."""
    if fn.argc != 1:
        raise NotInClass("not a unary function")
    tainted = {1}
    changed = True
    while changed:
        changed = False
        for b in fn.blocks:
            for st in b.st:
                if st["s"] != "=" or st["lhs"]["p"]:
                    continue
                rv = st["rv"]
                if rv["r"] in ("use", "cast") and rv["a"].get("k") in ("copy", "move") and rv["a"]["pl"]["l"] in tainted and not rv["a"]["pl"]["p"]:
                    if rv["r"] == "cast":
                        continue      # a cast of the raw argument is a new value: handled below as a use
                    if st["lhs"]["l"] not in tainted:
                        tainted.add(st["lhs"]["l"])
                        changed = True
    for b in fn.blocks:
        for st in b.st:
            if st["s"] != "=":
                continue
            rv = st["rv"]
            ops = [rv.get("a"), rv.get("b")] + list(rv.get("ops", ()))
            uses = [o for o in ops if isinstance(o, dict) and o.get("k") in ("copy", "move") and o["pl"]["l"] in tainted]
            if not uses:
                continue
            if rv["r"] == "use":
                continue
            if rv["r"] == "bin" and rv["op"] in ("Lt", "Le", "Gt", "Ge", "Eq", "Ne"):
                other = rv["b"] if uses[0] is rv["a"] else rv["a"]
                if other.get("k") == "const":
                    continue
            raise NotInClass("the argument is used in `%s`, which is not a comparison with a constant" % (rv.get("op") or rv["r"]))
        t = b.term
        if t["t"] == "call":
            for a in t["args"]:
                if a.get("k") in ("copy", "move") and a["pl"]["l"] in tainted:
                    ck = callee_skey(t) or ""
                    if not re.search(r"^core::num::(<impl u64>::)?(ilog2|leading_zeros|checked_ilog2|trailing_zeros|count_ones)$|^core::num::(ilog2|leading_zeros)$", ck):
                        raise NotInClass("the argument is passed to %s" % ck)
        if t["t"] == "switch" and t["discr"].get("k") in ("copy", "move") and t["discr"]["pl"]["l"] in tainted and not t["discr"]["pl"]["p"]:
            pass   # `match value { 0 => .., 1..=0xff => .. }` switches on the value itself: arms are constants (in the partition)


def evaluate(fn, x, fuel=400):
    """Interpret fn(x) for a concrete u64 x.  Pure integer MIR only."""
    env = {1: x}
    bi = 0

    def val(o):
        if o.get("k") == "const":
            v = o["c"].get("v")
            if isinstance(v, bool):
                return int(v)
            if isinstance(v, int):
                return v
            raise NotInClass("constant %r" % (v,))
        pl = o["pl"]
        v = env.get(pl["l"])
        if v is None:
            raise NotInClass("read of an undefined local _%d" % pl["l"])
        for e in pl["p"]:
            if isinstance(e, dict) and "f" in e and isinstance(v, tuple):
                v = v[int(e["f"])]
            else:
                raise NotInClass("projection")
        return v

    def width(ty):
        return {"u8": 8, "u16": 16, "u32": 32, "u64": 64, "usize": 64, "i32": 32, "i64": 64, "isize": 64, "bool": 1}.get(ty, 64)

    while fuel > 0:
        fuel -= 1
        b = fn.blocks[bi]
        for st in b.st:
            if st["s"] != "=":
                continue
            if st["lhs"]["p"]:
                raise NotInClass("projected store")
            l = st["lhs"]["l"]
            rv = st["rv"]
            r = rv["r"]
            if r == "use":
                env[l] = val(rv["a"])
            elif r == "cast":
                env[l] = val(rv["a"]) & ((1 << width(fn.locals[l])) - 1)
            elif r == "bin":
                a, c = val(rv["a"]), val(rv["b"])
                op = rv["op"]
                w = width(fn.locals[l]) if not op.endswith("WithOverflow") else 64
                m = (1 << w) - 1
                if op in ("Lt", "Le", "Gt", "Ge", "Eq", "Ne"):
                    env[l] = int({"Lt": a < c, "Le": a <= c, "Gt": a > c, "Ge": a >= c, "Eq": a == c, "Ne": a != c}[op])
                elif op in ("Add", "AddUnchecked"):
                    env[l] = (a + c) & m
                elif op in ("Sub", "SubUnchecked"):
                    env[l] = (a - c) & m
                elif op in ("Mul", "MulUnchecked"):
                    env[l] = (a * c) & m
                elif op == "Div":
                    if c == 0:
                        raise NotInClass("division by zero")
                    env[l] = a // c
                elif op == "Rem":
                    env[l] = a % c
                elif op in ("Shr", "ShrUnchecked"):
                    env[l] = a >> c
                elif op in ("Shl", "ShlUnchecked"):
                    env[l] = (a << c) & m
                elif op == "BitAnd":
                    env[l] = a & c
                elif op == "BitOr":
                    env[l] = a | c
                elif op in ("AddWithOverflow", "SubWithOverflow", "MulWithOverflow"):
                    full = {"A": a + c, "S": a - c, "M": a * c}[op[0]]
                    env[l] = (full & (U64 - 1), int(full < 0 or full >= U64))
                else:
                    raise NotInClass(op)
            elif r == "un" and rv["op"] == "Not":
                a = val(rv["a"])
                env[l] = (1 - a) if fn.locals[l] == "bool" else (~a) & ((1 << width(fn.locals[l])) - 1)
            else:
                raise NotInClass(r)
        t = b.term
        k = t["t"]
        if k == "return":
            return env.get(0)
        if k == "goto":
            bi = t["to"]
        elif k == "switch":
            d = val(t["discr"])
            nxt = t["otherwise"]
            for v, tgt in t["arms"]:
                if v == d:
                    nxt = tgt
                    break
            bi = nxt
        elif k == "assert":
            if val(t["cond"]) != int(t["expected"]):
                return ("panic", t.get("msg", "")[:40])
            bi = t["to"]
        elif k == "call":
            ck = callee_skey(t) or ""
            a = [val(o) for o in t["args"]]
            if re.search(r"ilog2$", ck) and "checked" not in ck:
                if a[0] == 0:
                    return ("panic", "ilog2(0)")
                r_ = a[0].bit_length() - 1
            elif re.search(r"leading_zeros$", ck):
                r_ = 64 - a[0].bit_length()
            elif re.search(r"trailing_zeros$", ck):
                r_ = (a[0] & -a[0]).bit_length() - 1 if a[0] else 64
            elif re.search(r"count_ones$", ck):
                r_ = bin(a[0]).count("1")
            else:
                raise NotInClass("call to %s" % ck)
            if t["dest"]["p"]:
                raise NotInClass("projected call destination")
            env[t["dest"]["l"]] = r_
            bi = t["to"]
        elif k == "drop":
            bi = t["to"]
        else:
            raise NotInClass(k)
    raise NotInClass("does not terminate within the step bound (loop?)")


def tabulate(fn):
    """[(lo, hi, value)] with hi inclusive, maximal runs merged: f(v) == value for every lo <= v <= hi."""
    check_class(fn)
    pts = breakpoints(fn)
    out = []
    for lo, nxt in zip(pts, pts[1:]):
        if lo >= U64:
            break
        hi = nxt - 1
        v = evaluate(fn, lo)
        if out and out[-1][2] == v and out[-1][1] + 1 == lo:
            out[-1] = (out[-1][0], hi, v)
        else:
            out.append((lo, hi, v))
    return out
