"""Implicit-bounds analysis: every slice/array/Vec index or range-slice site must be provably in range.

A site is `s[i]` (MIR BoundsCheck assert, or Index::index(s, usize)) or `s[a..b]` / `s[..b]` / `s[a..]`
(Index::index with a Range* aggregate).  The obligation is  i < len(s)  resp.  a <= b <= len(s).

Facts come from the switch edges that dominate the site (comparisons of canonical terms), from the
value's construction (position() over the same slice, a `0..len` loop variable, min(_, len), x % n) and
from fixed array lengths.  Terms are canonical symbolic expressions over *places*; a fact about a place
that can be written between the guard edge and the site is discarded (kill check on the CFG).

The prover is deliberately small (difference constraints  x - y < k  over canonical terms, one step of
transitivity).  Anything it cannot prove is reported: the rule set carries an explicit exception table,
one reason per entry, for the sites confirmed safe by reading."""
import re

from . import prim as P
from .facts import callee_skey, strip_generics

LEN_CALL = re.compile(r"^(core::slice::len|alloc::vec::Vec::len|core::str::len|alloc::string::String::len)$")
IS_EMPTY = re.compile(r"^(core::slice::is_empty|alloc::vec::Vec::is_empty|core::str::is_empty|alloc::string::String::is_empty)$")
DEREFISH = re.compile(r"(^|::)(deref|deref_mut|as_slice|as_mut_slice|as_ref|as_mut|borrow|borrow_mut|as_bytes|as_str|as_mut_vec)$")
INDEX_CALL = re.compile(r"^(core::slice::index::index(_mut)?|core::array::index(_mut)?|core::str::traits::index(_mut)?|"
                        r"<alloc::vec::Vec as core::ops::index::Index(Mut)?>::index(_mut)?|"
                        r"<alloc::string::String as core::ops::index::Index(Mut)?>::index(_mut)?)$")
MIN_CALL = re.compile(r"core::cmp::(min|Ord::min)$")
POSITION = re.compile(r"::(position|rposition)$")
INT_TY = re.compile(r"^(u8|u16|u32|u64|u128|usize|i8|i16|i32|i64|i128|isize)$")
UNSIGNED_W = {"u8": 8, "u16": 16, "u32": 32, "u64": 64, "usize": 64, "u128": 128}


def _int(v):
    if isinstance(v, bool):
        return None
    if isinstance(v, int):
        return v
    if isinstance(v, str):
        m = re.match(r"^(-?\d+)(_[ui](8|16|32|64|128|size))?$", v)
        if m:
            return int(m.group(1))
    return None


class BF:
    """Per-function bounds reasoning."""

    def __init__(self, prog, fn, invariants=()):
        """invariants: [(owner type regex, index field, buffer field)] -- type invariants `x.index <= x.buffer.len()`
        that the rule set establishes separately (every write of the index field is proved to preserve it)."""
        self.prog = prog
        self.fn = fn
        self.invariants = [(re.compile(o), f, b) for (o, f, b) in invariants]
        self.defs = P.defs(fn)
        self._ndef = {}
        self._mutborrowed = None
        self._term_memo = {}
        self._guards_memo = {}
        self._kills = {}
        self.root_ty = {}

    # ---------------------------------------------------------------------------------------- locals
    def ndefs(self, l):
        if l not in self._ndef:
            self._ndef[l] = len([1 for (_pt, kind, _p) in self.defs.of(l) if kind in ("assign", "call")])
        return self._ndef[l]

    def mutborrowed(self):
        """Locals whose storage is mutably borrowed (`&mut l` / `&mut l.f`, not through a deref) or raw-borrowed."""
        if self._mutborrowed is None:
            s = set()
            for b in self.fn.blocks:
                for st in b.st:
                    if st["s"] != "=":
                        continue
                    rv = st["rv"]
                    if (rv["r"] == "ref" and rv.get("mut")) or rv["r"] == "rawptr":
                        pl = rv["pl"]
                        if "*" not in pl["p"]:
                            s.add(pl["l"])
            self._mutborrowed = s
        return self._mutborrowed

    def stable_local(self, l):
        """Assigned exactly once as a whole and never mutably borrowed: its value is the same wherever it is read
        (after its definition).  Parameters that are never reassigned count too."""
        if l in self.mutborrowed():
            return False
        n = self.ndefs(l)
        if 1 <= l <= self.fn.argc:
            return n == 0
        if n != 1:
            return False
        # no partial (projected) writes
        for (_pt, kind, p) in self.defs.of(l):
            if kind == "assign" and [e for e in p["lhs"]["p"] if e != "*"] and "*" not in p["lhs"]["p"]:
                return False
        return True

    # ---------------------------------------------------------------------------------------- terms
    def op_term(self, op, depth=0):
        if op is None:
            return ("?",)
        if op.get("k") == "const":
            c = op["c"]
            v = _int(c.get("v"))
            if v is not None and INT_TY.match(c.get("ty", "usize").replace("const ", "")):
                return ("c", v)
            if v is not None:
                return ("c", v)
            return ("k", str(c.get("v", c.get("named", "?"))))
        return self.place_term(op["pl"], depth)

    def _proj_names(self, pl):
        out = []
        for e in pl["p"]:
            if e == "*":
                continue
            if isinstance(e, dict) and "f" in e:
                out.append(e["f"])
            elif isinstance(e, dict) and "dc" in e:
                out.append("as:" + str(e["dc"]))
            elif isinstance(e, dict) and "ix" in e:
                out.append("[_%d]" % e["ix"])
            elif isinstance(e, dict) and "cix" in e:
                out.append("[%s%d]" % ("-" if e.get("from_end") else "", e["cix"]))
            else:
                out.append("[?]")
        return tuple(out)

    def place_term(self, pl, depth=0):
        return self.term_of(pl["l"], self._proj_names(pl), depth)

    def term_of(self, l, names, depth=0):
        key = (l, names)
        if key in self._term_memo:
            return self._term_memo[key]
        self._term_memo[key] = ("pl", l, names)   # cycle guard
        t = self._term_of(l, names, depth)
        if t is None:
            t = ("pl", l, names)
        self._term_memo[key] = t
        return t

    def _term_of(self, l, names, depth):
        fn = self.fn
        if depth > 40:
            return None
        ds = [(pt, kind, p) for (pt, kind, p) in self.defs.of(l) if kind in ("assign", "call")]
        if not (self.stable_local(l) and len(ds) == 1):
            return None
        pt, kind, p = ds[0]
        named = fn.local_name(l) is not None
        if kind == "assign":
            if p["lhs"]["p"]:
                return None
            rv = p["rv"]
            r = rv["r"]
            if r == "use":
                return self._through(rv["a"], names, depth, named)
            if r == "cast":
                a = rv["a"]
                src_ty = self._op_ty(a)
                dst_ty = fn.locals[l]
                if not names and src_ty in UNSIGNED_W and dst_ty in UNSIGNED_W and UNSIGNED_W[src_ty] <= UNSIGNED_W[dst_ty]:
                    return self._through(a, names, depth, named)
                if src_ty.startswith("&") or src_ty.startswith("*"):
                    return self._through(a, names, depth, named)     # unsizing / pointer casts keep the referent
                return None
            if r in ("ref", "rawptr"):
                return self._through({"k": "copy", "pl": rv["pl"]}, names, depth, named)
            if r == "bin":
                op = rv["op"]
                if names == ("0",) and op in ("AddWithOverflow", "SubWithOverflow", "MulWithOverflow"):
                    op = op[:3]
                elif names:
                    return None
                a, b = self.op_term(rv["a"], depth + 1), self.op_term(rv["b"], depth + 1)
                if named and any(not self.place_stable(q) for q in self.places_of(a) | self.places_of(b)):
                    return None
                if op in ("Add", "AddUnchecked"):
                    return self.mk_add(a, b)
                if op in ("Sub", "SubUnchecked"):
                    return self.mk_sub(a, b)
                if op == "Rem":
                    return ("rem", a, b)
                if op == "Div":
                    return ("div", a, b)
                if op == "BitAnd":
                    return ("and", a, b)
                if op == "Mul":
                    if a[0] == "c" and b[0] == "c":
                        return ("c", a[1] * b[1])
                    return ("mul",) + tuple(sorted((a, b), key=repr))
                if op in ("Shr", "ShrUnchecked"):
                    return ("shr", a, b)
                if op in ("Lt", "Le", "Gt", "Ge", "Eq", "Ne"):
                    return ("cmp", op, a, b)
                return None
            if r == "un":
                if rv["op"] == "PtrMetadata" and not names:
                    return ("len", self.root(rv["a"]))
                if rv["op"] == "Not" and not names:
                    return ("not", self.op_term(rv["a"], depth + 1))
                return None
            if r == "len":
                return ("len", self.place_root(rv["pl"]))
            if r == "agg":
                if rv.get("tuple") and names and names[0].isdigit() and int(names[0]) < len(rv["ops"]):
                    return self._through(rv["ops"][int(names[0])], names[1:], depth, named)
                if "fields" in rv and names and names[0] in rv["fields"] and len(rv["fields"]) == len(rv["ops"]):
                    return self._through(rv["ops"][rv["fields"].index(names[0])], names[1:], depth, named)
                return None
            return None
        t = p
        ck = callee_skey(t) or ""
        base_names = tuple(n for n in names if not str(n).startswith("as:"))
        if base_names == ("0",) and re.search(r"(^|::)checked_sub$", ck) and len(t["args"]) == 2:
            # the payload of `x.checked_sub(y)` (reached only where it is Some) is x - y
            return self.mk_sub(self.op_term(t["args"][0], depth + 1), self.op_term(t["args"][1], depth + 1))
        if not names:
            if LEN_CALL.search(ck) and t["args"]:
                r_ = ("len", self.root(t["args"][0]))
                if named and any(not self.place_stable(q) for q in self.places_of(r_)):
                    return None
                return r_
            if MIN_CALL.search(ck) and len(t["args"]) == 2:
                return ("min", self.op_term(t["args"][0], depth + 1), self.op_term(t["args"][1], depth + 1))
            if re.search(r"::saturating_sub$", ck) and len(t["args"]) == 2:
                return ("satsub", self.op_term(t["args"][0], depth + 1), self.op_term(t["args"][1], depth + 1))
        return None

    def _op_ty(self, op):
        if op.get("k") == "const":
            return op["c"].get("ty", "")
        pl = op["pl"]
        ty = self.fn.locals[pl["l"]]
        for e in pl["p"]:
            if isinstance(e, dict) and "ty" in e:
                ty = e["ty"]
            elif e == "*":
                ty = re.sub(r"^(&'?\w* ?(mut )?|\*(mut|const) )", "", ty)
        return ty

    def _through(self, op, names, depth, named):
        """Continue into operand `op` with the remaining projection `names` appended.  A *named* local that
        copies a place which can change later is a snapshot: it stays its own (stable) term."""
        if op.get("k") == "const":
            return self.op_term(op) if not names else None
        pl = op["pl"]
        t = self.term_of(pl["l"], self._proj_names(pl) + tuple(names), depth + 1)
        if named and any(not self.place_stable(q) for q in self.places_of(t)):
            return None
        return t

    def mk_add(self, a, b):
        if a[0] == "c" and b[0] == "c":
            return ("c", a[1] + b[1])
        if a[0] == "c":
            a, b = b, a
        if b[0] == "c" and a[0] == "sub" and a[2][0] == "c":
            # (x - k) + c  ==  x + (c - k)   (also modulo 2^64)
            d = b[1] - a[2][1]
            if d == 0:
                return a[1]
            if d < 0:
                return ("sub", a[1], ("c", -d))
            return self.mk_add(a[1], ("c", d))
        if b[0] == "c":
            if a[0] == "add" and a[2][0] == "c":
                return ("add", a[1], ("c", a[2][1] + b[1]))
            if b[1] == 0:
                return a
            return ("add", a, b)
        return ("add",) + tuple(sorted((a, b), key=repr))

    def mk_sub(self, a, b):
        if a[0] == "c" and b[0] == "c":
            return ("c", a[1] - b[1])
        return ("sub", a, b)

    def root(self, op):
        """Canonical identity of the slice/array/Vec an operand refers to (through refs, derefs, reborrows, unsizing)."""
        if op.get("k") == "const":
            r = ("k", str(op["c"].get("v", op["c"].get("named", "?")))[:40])
            self.root_ty[r] = op["c"].get("ty", "")
            return r
        return self.place_root(op["pl"])

    def elem_ty(self, root):
        """Element type of the indexed container (`u8` for byte buffers), '' if unknown."""
        ty = self.root_ty.get(root, "")
        for _ in range(6):
            ty = re.sub(r"^(&('\w+ )?(mut )?|\*(mut|const) )+", "", ty)
            m = re.match(r"^(alloc::boxed::Box|alloc::sync::Arc|alloc::rc::Rc)<(.*)>$", ty)
            if not m:
                break
            ty = re.sub(r", alloc::alloc::Global$", "", m.group(2))
        m = re.match(r"^\[(.*?)(; [^\];]+)?\]$", ty)
        if m:
            return m.group(1)
        m = re.match(r"^alloc::vec::Vec<(.*?)(, alloc::alloc::Global)?>$", ty)
        if m:
            return m.group(1)
        if ty in ("str", "alloc::string::String"):
            return "u8"
        return ""

    def place_root(self, pl, depth=0):
        fn = self.fn
        l = pl["l"]
        names = self._proj_names(pl)
        self.root_ty.setdefault(("pl", l, names), self._op_ty({"k": "copy", "pl": pl}))
        if depth > 30:
            return ("pl", l, names)
        ds = [(pt, kind, p) for (pt, kind, p) in self.defs.of(l) if kind in ("assign", "call")]
        if self.stable_local(l) and len(ds) == 1:
            pt, kind, p = ds[0]
            if kind == "assign" and not p["lhs"]["p"]:
                rv = p["rv"]
                if rv["r"] in ("ref", "rawptr"):
                    r = self.place_root(rv["pl"], depth + 1)
                    r2 = self._append(r, names)
                    if names:
                        self.root_ty.setdefault(r2, self._op_ty({"k": "copy", "pl": pl}))
                    return r2
                if rv["r"] in ("use", "cast") and rv["a"].get("k") in ("copy", "move"):
                    r = self.place_root(rv["a"]["pl"], depth + 1)
                    r2 = self._append(r, names)
                    if names:
                        self.root_ty.setdefault(r2, self._op_ty({"k": "copy", "pl": pl}))
                    return r2
            if kind == "call":
                ck = callee_skey(p) or ""
                if DEREFISH.search(ck) and p["args"] and p["args"][0].get("k") in ("copy", "move") and not names:
                    return self.place_root(p["args"][0]["pl"], depth + 1)
        return ("pl", l, names)

    def _append(self, r, names):
        if not names:
            return r
        if r[0] == "pl":
            return ("pl", r[1], r[2] + tuple(names))
        return ("proj", r, tuple(names))

    # ---------------------------------------------------------------------------------------- stability / kills
    def places_of(self, t, acc=None):
        acc = set() if acc is None else acc
        if not isinstance(t, tuple):
            return acc
        if t and t[0] == "pl":
            acc.add(t)
            return acc
        for x in t[1:]:
            if isinstance(x, tuple):
                self.places_of(x, acc)
        return acc

    def place_stable(self, t):
        """The value read through this place cannot change while the function runs."""
        _k, l, names = t
        if not self.stable_local(l):
            return False
        ty = self.fn.locals[l]
        m = re.match(r"^&('\w+ )?mut (.*)$", ty)
        if m or ty.startswith("*mut"):
            pointee = m.group(2) if m else ty[5:]
            # the length of a slice/array behind `&mut` is fixed; anything else behind it can be rewritten
            return not names and (pointee.startswith("[") or pointee == "str")
        # interior mutability in a field path is not tracked: Cell/RefCell/Atomic/Mutex do not appear as plain places
        return True

    def kill_points(self, t):
        """Points that may change the value stored in place t = ('pl', l, names)."""
        if t in self._kills:
            return self._kills[t]
        _k, l, names = t
        fn = self.fn
        out = []
        # aliases: locals that hold `&mut` reborrows of l (or of *l)
        alias = {l}
        changed = True
        while changed:
            changed = False
            for b in fn.blocks:
                for st in b.st:
                    if st["s"] != "=":
                        continue
                    rv = st["rv"]
                    tgt = st["lhs"]["l"]
                    if tgt in alias:
                        continue
                    if rv["r"] in ("ref", "rawptr") and rv.get("mut", rv["r"] == "rawptr") and rv["pl"]["l"] in alias:
                        alias.add(tgt)
                        changed = True
                    elif rv["r"] in ("use", "cast") and rv["a"].get("k") in ("copy", "move") and rv["a"]["pl"]["l"] in alias and \
                            ("&mut" in fn.locals[tgt] or fn.locals[tgt].startswith("*mut")):
                        alias.add(tgt)
                        changed = True
        for b in fn.blocks:
            for i, st in enumerate(b.st):
                if st["s"] == "=" and st["lhs"]["l"] in alias:
                    lp = self._proj_names(st["lhs"])
                    if st["lhs"]["l"] == l:
                        if lp == names[:len(lp)] or names == lp[:len(names)]:
                            out.append((b.idx, i))
                    elif "*" in st["lhs"]["p"]:
                        out.append((b.idx, i))
            t_ = b.term
            if t_["t"] == "call":
                for a in t_["args"]:
                    if a.get("k") in ("copy", "move") and a["pl"]["l"] in alias:
                        al = a["pl"]["l"]
                        ty = fn.locals[al]
                        if al != l or "&mut" in ty or ty.startswith("*mut"):
                            out.append(P.term_pt(fn, b.idx))
                if t_["dest"]["l"] == l:
                    out.append(P.term_pt(fn, b.idx))
        self._kills[t] = out
        return out

    def fact_valid(self, edge, site, terms):
        """No place mentioned in `terms` can be written on a path edge -> site that does not re-cross the edge."""
        bb, lab = edge
        tgt = [s for la, s in self.fn.blocks[bb].succs if la == lab]
        if not tgt:
            return False
        start = [(tgt[0], 0)]
        for t in terms:
            for pl in self.places_of(t):
                if self.place_stable(pl):
                    continue
                for k in self.kill_points(pl):
                    if k == site:
                        continue
                    if P.reach(self.fn, start, [k], avoid_edges=[(bb, lab)], avoid=[site]) is not None and \
                            P.reach(self.fn, P.after(self.fn, k), [site], avoid_edges=[(bb, lab)]) is not None:
                        return False
        return True

    # ---------------------------------------------------------------------------------------- facts
    def edge_facts(self, bb, lab):
        """Relations (a, op, b) with op in '<', '<=', '==', '!=' that hold when the edge is taken."""
        b = self.fn.blocks[bb]
        t = b.term
        if t["t"] != "switch":
            return []
        d = self.op_term(t["discr"])
        neg = False
        while d[0] == "not":
            neg = not neg
            d = d[1]
        out = []
        if lab not in ("sw:0", "sw:1"):
            # integer switch on a value: `match x { 3 => .. }`
            m = re.match(r"sw:(\d+)$", lab)
            if m and d[0] != "cmp":
                out.append((d, "==", ("c", int(m.group(1)))))
            return out
        truth = (lab == "sw:1") != neg
        if d[0] == "cmp":
            _c, op, x, y = d
            if not truth:
                op = {"Lt": "Ge", "Le": "Gt", "Gt": "Le", "Ge": "Lt", "Eq": "Ne", "Ne": "Eq"}[op]
            if op == "Lt":
                out.append((x, "<", y))
            elif op == "Le":
                out.append((x, "<=", y))
            elif op == "Gt":
                out.append((y, "<", x))
            elif op == "Ge":
                out.append((y, "<=", x))
            elif op == "Eq":
                out.append((x, "==", y))
            else:
                out.append((x, "!=", y))
            return out
        # `s.get(i)` returned Some (possibly through ok_or(..)? / copied() / map(..)): i < len(s)
        if d[0] == "pl" and not d[2]:
            g = self.get_chain(d[1])
            if g is not None:
                succ_label, tcall = g
                if lab == succ_label:
                    if self.CHECKED_SUB.search(callee_skey(tcall) or ""):
                        # `x.checked_sub(y)` answered Some: y <= x
                        out.append((self.op_term(tcall["args"][1]), "<=", self.op_term(tcall["args"][0])))
                    else:
                        out.append((self.op_term(tcall["args"][1]), "<", ("len", self.root(tcall["args"][0]))))
                    return out
        # call-valued conditions: is_empty(), Option discriminants of position()/checked ops are handled by value facts
        if d[0] == "pl":
            ds = [(pt, kind, p) for (pt, kind, p) in self.defs.of(d[1]) if kind == "call"]
            if len(ds) == 1 and not d[2]:
                tcall = ds[0][2]
                ck = callee_skey(tcall) or ""
                if IS_EMPTY.search(ck) and tcall["args"]:
                    ln = ("len", self.root(tcall["args"][0]))
                    if truth:
                        out.append((ln, "==", ("c", 0)))
                    else:
                        out.append((("c", 0), "<", ln))
            if lab in ("sw:0", "sw:1") and not out:
                out.append((d, "==", ("c", 1 if lab == "sw:1" else 0)))
        return out

    GET_CALL = re.compile(r"^core::slice::get$")
    CHECKED_SUB = re.compile(r"(^|::)checked_sub$")
    CHAIN = re.compile(r"^(core::option::Option::(ok_or|ok_or_else|copied|cloned|map|filter|as_ref)|core::result::Result::(map|map_err|as_ref)|"
                       r"<core::(option::Option|result::Result) as core::ops::try_trait::Try>::branch)$")

    def get_chain(self, discr_local):
        """discr_local = discriminant(X) where X is (a chain of Some-preserving adaptors over) `slice.get(i)` with a
        usize index: returns (label of the edge on which get returned Some, the get call)."""
        ds = [(pt, kind, p) for (pt, kind, p) in self.defs.of(discr_local) if kind in ("assign", "call")]
        if len(ds) != 1 or ds[0][1] != "assign" or ds[0][2]["rv"]["r"] != "discr" or ds[0][2]["rv"]["pl"]["p"]:
            return None
        l = ds[0][2]["rv"]["pl"]["l"]
        ty0 = strip_generics(self.fn.locals[l])
        for _ in range(8):
            dd = [(pt, kind, p) for (pt, kind, p) in self.defs.of(l) if kind in ("assign", "call")]
            if len(dd) != 1 or l in self.mutborrowed():
                return None
            pt, kind, p = dd[0]
            if kind == "assign":
                rv = p["rv"]
                if rv["r"] == "use" and rv["a"].get("k") in ("copy", "move") and not rv["a"]["pl"]["p"] and not p["lhs"]["p"]:
                    l = rv["a"]["pl"]["l"]
                    continue
                return None
            ck = callee_skey(p) or ""
            if (self.GET_CALL.search(ck) or self.CHECKED_SUB.search(ck)) and len(p["args"]) == 2 and \
                    (self.CHECKED_SUB.search(ck) or self._op_ty(p["args"][1]) == "usize"):
                if ty0.startswith("core::option::Option"):
                    return ("sw:1", p)
                if ty0.startswith("core::result::Result") or ty0.startswith("core::ops::control_flow::ControlFlow"):
                    return ("sw:0", p)
                return None
            if self.CHAIN.search(ck) and p["args"] and p["args"][0].get("k") in ("copy", "move") and not p["args"][0]["pl"]["p"]:
                l = p["args"][0]["pl"]["l"]
                continue
            return None
        return None

    def assume(self, site, facts):
        """Extra facts (a, op, b) known to hold at `site` from a rule the caller has established separately
        (e.g. the postcondition of a validating call that dominates the site)."""
        self._assumed = getattr(self, "_assumed", {})
        self._assumed.setdefault(site, []).extend(facts)
        self._guards_memo.pop(site, None)

    def dominating_facts(self, site):
        if site in self._guards_memo:
            return self._guards_memo[site]
        out = [f_ + ((-1, "post"),) for f_ in getattr(self, "_assumed", {}).get(site, [])]
        for (bb, lab) in P.guards_of(self.fn, site):
            for fact in self.edge_facts(bb, lab):
                if self.fact_valid((bb, lab), site, [fact[0], fact[2]]):
                    out.append(fact + ((bb, lab),))
        # asserts that dominate: `assert!(cond)` compiles to a switch + panic, covered by guards_of; MIR Assert
        # terminators (BoundsCheck of an earlier index on the same slice) give i < len facts too
        for b in self.fn.blocks:
            t = b.term
            if t["t"] == "assert" and "bc_len" in t and (b.idx, len(b.st)) != site:
                # dominance: removing the ok edge must cut the site off
                if P.reach(self.fn, P.ENTRY, [site], avoid_edges=[(b.idx, "ok")]) is None:
                    x, y = self.op_term(t["bc_index"]), self.op_term(t["bc_len"])
                    if self.fact_valid((b.idx, "ok"), site, [x, y]):
                        out.append((x, "<", y, (b.idx, "ok")))
        self._guards_memo[site] = out
        return out

    # ---------------------------------------------------------------------------------------- prover
    @staticmethod
    def lin(t):
        """term -> (base, k) with term == base + k (base None for pure constants)."""
        if t[0] == "c":
            return (None, t[1])
        if t[0] == "add" and len(t) == 3 and t[2][0] == "c":
            b, k = BF.lin(t[1])
            return (b, k + t[2][1])
        return (t, 0)

    def owner_matches(self, l, names, orx):
        ty = self.fn.locals[l]
        if names:
            return False
        ty = re.sub(r"^(&('\w+ )?(mut )?)+", "", ty)
        return bool(orx.search(strip_generics(ty)))

    def array_len(self, root):
        """Fixed length if the indexed thing is an array `[T; N]` (N literal)."""
        if root[0] == "pl":
            ty = self.fn.locals[root[1]]
            if not root[2]:
                m = re.search(r"\[[^\[\];]+; (\d+)(_usize)?\]$", ty.replace("&mut ", "").replace("&", ""))
                if m:
                    return int(m.group(1))
        return None

    def upper_facts(self, t, depth=0):
        """Built-in facts  t < u  /  t <= u  from how t is constructed: list of (op, u)."""
        out = []
        if depth > 3:
            return out
        if t[0] == "min":
            out += [("<=", t[1]), ("<=", t[2])]
        elif t[0] == "rem":
            out.append(("<", t[2]))
        elif t[0] == "and":
            for x in (t[1], t[2]):
                if x[0] == "c":
                    out.append(("<=", x))
        elif t[0] == "satsub":
            out.append(("<=", t[1]))
        elif t[0] == "sub":
            # unsigned a - b <= a  (a panic or wrap on underflow is a different defect class: overflow checks)
            pass
        elif t[0] == "shr" and t[2][0] == "c":
            pass
        return out

    def value_facts(self, t, site):
        """Facts attached to a place by the value stored in it: loop variable of `a..b`, position() result, u8 range."""
        out = []
        if t[0] != "pl":
            return out
        l, names = t[1], t[2]
        fn = self.fn
        # Option<usize> payload of position()/next() calls: (x as Some).0
        base_names = tuple(n for n in names if not n.startswith("as:"))
        if base_names == ("0",):
            for (pt, kind, p) in self.defs.of(l):
                if kind != "call":
                    continue
                ck = callee_skey(p) or ""
                if POSITION.search(ck) and p["args"]:
                    it_root = self.iter_source(p["args"][0])
                    if it_root is not None:
                        out.append(("<", ("len", it_root)))
                if re.search(r"^core::iter::range::(.*::)?next$", ck) and p["args"]:
                    rg = self.range_of(p["args"][0])
                    if rg is not None:
                        out.append(("<", rg[1]))
        # payload of an Option/Result chain: `a.checked_add(b).filter(|v| *v <= buf.len()).ok_or(..)?`
        if base_names == ("0",):
            for (kind_, info) in self.option_chain(l):
                if kind_ == "filter":
                    out += info
        # small integer types
        ty = fn.locals[l] if not names else ""
        if ty == "u8":
            out.append(("<=", ("c", 255)))
        return out

    def option_chain(self, l):
        """Walk the single-definition chain of Some/Ok-preserving adaptors behind local l.  Yields
        ('filter', [(op, upper term)]) for `Option::filter(_, |v| *v <= X.len())` and ('sum', (a, b)) for checked_add(a, b)."""
        out = []
        for _ in range(10):
            dd = [(pt, kind, p) for (pt, kind, p) in self.defs.of(l) if kind in ("assign", "call")]
            if len(dd) != 1 or l in self.mutborrowed():
                break
            pt, kind, p = dd[0]
            if kind == "assign":
                rv = p["rv"]
                if rv["r"] == "use" and rv["a"].get("k") in ("copy", "move") and not p["lhs"]["p"]:
                    pl = rv["a"]["pl"]
                    if all(isinstance(e, dict) and ("dc" in e or e.get("f") == "0") for e in pl["p"]):
                        l = pl["l"]
                        continue
                break
            ck = callee_skey(p) or ""
            if ck == "core::option::Option::filter" and len(p["args"]) == 2:
                ff = self.closure_bound(p["args"][1])
                if ff:
                    out.append(("filter", ff))
            elif re.match(r"^core::num::checked_add$|^core::num::<impl usize>::checked_add$", ck) and len(p["args"]) == 2:
                out.append(("sum", (self.op_term(p["args"][0]), self.op_term(p["args"][1]))))
                break
            elif not self.CHAIN.search(ck):
                break
            if not (p["args"] and p["args"][0].get("k") in ("copy", "move") and not p["args"][0]["pl"]["p"]):
                break
            l = p["args"][0]["pl"]["l"]
        return out

    def closure_bound(self, op):
        """`|v| *v <= cap.len()` (or <): [(op, ('len', root of the captured buffer in *this* function))]."""
        if op.get("k") not in ("copy", "move") or op["pl"]["p"]:
            return None
        dd = [(pt, kind, p) for (pt, kind, p) in self.defs.of(op["pl"]["l"]) if kind == "assign"]
        if len(dd) != 1 or dd[0][2]["rv"]["r"] != "agg" or not dd[0][2]["rv"].get("closure"):
            return None
        rv = dd[0][2]["rv"]
        g = self.prog.fns.get(rv["closure"])
        if g is None:
            cands = [f for f in self.prog.fns.values() if f.skey == strip_generics(rv["closure"])]
            g = cands[0] if len(cands) == 1 else None
        if g is None or any(b.term["t"] == "switch" for b in g.blocks):
            return None
        cb = BF(self.prog, g)
        t = cb.term_of(0, ())
        if t[0] != "cmp":
            return None
        _c, cop, a, b = t
        if cop in ("Ge", "Gt"):
            cop, a, b = {"Ge": "Le", "Gt": "Lt"}[cop], b, a
        if cop not in ("Le", "Lt") or a != ("pl", 2, ()) or b[0] != "len":
            return None
        cap = b[1]
        if cap[0] != "pl" or cap[1] != 1 or len(cap[2]) != 1 or not cap[2][0].isdigit() or int(cap[2][0]) >= len(rv["ops"]):
            return None
        root = self.root(rv["ops"][int(cap[2][0])])
        return [("<=" if cop == "Le" else "<", ("len", root))]

    def lower_facts(self, t):
        """Terms known to be <= t by construction: t = a.checked_add(b) (Some) gives a <= t and b <= t."""
        out = []
        if t[0] == "pl":
            base_names = tuple(n for n in t[2] if not n.startswith("as:"))
            if base_names == ("0",):
                for (kind_, info) in self.option_chain(t[1]):
                    if kind_ == "sum":
                        out += [info[0], info[1]]
        elif t[0] == "add":
            out += [x for x in t[1:] if x[0] != "c" or x[1] >= 0]
        return out

    def iter_source(self, op):
        """The slice a (by-ref) slice iterator operand iterates over, if it is `S.iter()`."""
        if op.get("k") not in ("copy", "move"):
            return None
        seen = set()
        work = [op["pl"]["l"]]
        while work:
            l = work.pop()
            if l in seen:
                continue
            seen.add(l)
            for (pt, kind, p) in self.defs.of(l):
                if kind == "assign" and p["rv"]["r"] in ("ref", "use", "cast"):
                    src = p["rv"].get("pl") or (p["rv"]["a"].get("pl") if isinstance(p["rv"].get("a"), dict) else None)
                    if src:
                        work.append(src["l"])
                elif kind == "call":
                    ck = callee_skey(p) or ""
                    if re.search(r"core::slice::(<impl \[T\]>::)?iter$", ck) and p["args"]:
                        return self.root(p["args"][0])
                    if re.search(r"::(into_iter|by_ref|iter)$", ck) and p["args"] and p["args"][0].get("k") in ("copy", "move"):
                        work.append(p["args"][0]["pl"]["l"])
        return None

    def range_of(self, op):
        """(start term, end term) of the Range a `Range::next(&mut iter)` receiver was built from."""
        if op.get("k") not in ("copy", "move"):
            return None
        seen = set()
        work = [op["pl"]["l"]]
        while work:
            l = work.pop()
            if l in seen:
                continue
            seen.add(l)
            for (pt, kind, p) in self.defs.of(l):
                if kind == "assign":
                    rv = p["rv"]
                    if rv["r"] == "agg" and strip_generics(rv.get("adt", "")) == "core::ops::range::Range":
                        return (self.op_term(rv["ops"][0]), self.op_term(rv["ops"][1]))
                    if rv["r"] in ("ref", "rawptr"):
                        work.append(rv["pl"]["l"])
                    elif rv["r"] in ("use", "cast") and rv["a"].get("k") in ("copy", "move"):
                        work.append(rv["a"]["pl"]["l"])
                elif kind == "call":
                    ck = callee_skey(p) or ""
                    if re.search(r"::into_iter$", ck) and p["args"] and p["args"][0].get("k") in ("copy", "move"):
                        work.append(p["args"][0]["pl"]["l"])
        return None

    def prove(self, x, strict, y, site, facts=None, depth=0):
        """Prove x < y (strict) or x <= y at `site`.  Returns a short justification or None."""
        facts = self.dominating_facts(site) if facts is None else facts
        bx, kx = self.lin(x)
        by, ky = self.lin(y)
        # goal in difference form:  bx - by < G
        G = ky - kx + (0 if strict else 1)
        if bx == by:
            return "arithmetic" if 0 < G else None
        if bx is None and by is not None and kx <= 0 and ky >= 0 and not strict:
            return "0 <= unsigned"
        # fixed array length
        if by is not None and by[0] == "len" and depth < 4:
            n = self.array_len(by[1])
            if n is not None:
                r = self.prove(x, strict, ("c", n + ky), site, facts, depth + 1)
                if r:
                    return "array length %d; %s" % (n, r)
        for (a, op, b, edge) in facts:
            for (fa, fop, fb) in self._orient(a, op, b):
                ba, ka = self.lin(fa)
                bb_, kb = self.lin(fb)
                if ba == bx and bb_ == by:
                    Fk = kb - ka + (0 if fop == "<" else 1)     # fact: bx - by < Fk
                    if Fk <= G:
                        return "guard %s %s %s on bb%d[%s]" % (named(self.fn, fa), fop, named(self.fn, fb), edge[0], edge[1])
        # type invariant  owner.index <= owner.buffer.len()
        if bx is not None and bx[0] == "pl" and bx[2] and by is not None and by[0] == "len":
            for (orx, fld, buf) in self.invariants:
                if bx[2][-1] == fld and by[1] == ("pl", bx[1], bx[2][:-1] + (buf,)) and self.owner_matches(bx[1], bx[2][:-1], orx):
                    if 1 <= G:     # index <= len  is  index - len < 1
                        return "type invariant %s <= %s.len()" % (fld, buf)
        if depth >= 3:
            return None
        if bx is None:
            # constant x: c <= c' (fop) m  for a guard  c' (fop) m  with c <= c'
            for (a, op, b, edge) in facts:
                for (fa, fop, fb) in self._orient(a, op, b):
                    ba, ka = self.lin(fa)
                    if ba is None and kx <= ka and self.lin(fb)[0] is not None:
                        r = self.prove(fb, False, y, site, facts, depth + 1) if fop == "<" else self.prove(fb, strict, y, site, facts, depth + 1)
                        if r:
                            return "%d %s %s (guard on bb%d[%s]); %s" % (ka, fop, named(self.fn, fb), edge[0], edge[1], r)
            return None
        # a - b <= a once b <= a is known (no wrap-around)
        if bx[0] == "sub":
            nowrap = self.prove(bx[2], False, bx[1], site, facts, depth + 1)
            if nowrap:
                r = self.prove(self.mk_add(bx[1], ("c", kx)) if kx else bx[1], strict, self.mk_add(y, bx[2]) if bx[2][0] == "c" else y, site, facts, depth + 1) \
                    if bx[2][0] == "c" else self.prove(self.mk_add(bx[1], ("c", kx)) if kx else bx[1], strict, y, site, facts, depth + 1)
                if r:
                    return "%s does not wrap (%s); %s" % (named(self.fn, bx), nowrap, r)
        # c * t (+ k): bound the product through an upper bound of t
        if bx[0] == "mul" and len(bx) == 3 and bx[1][0] == "c" and bx[1][1] > 0:
            c, t = bx[1][1], bx[2]
            tb, tk = self.lin(t)
            cands = [(uop, u, why) for (uop, u, why) in
                     [(uop, u, "by construction") for (uop, u) in (self.upper_facts(tb) + self.value_facts(tb, site) if tb is not None else [])] +
                     [(fop, self.mk_add(fb, ("c", -self.lin(fa)[1])) if self.lin(fa)[1] else fb, "guard on bb%d[%s]" % (e[0], e[1]))
                      for (a, op, b, e) in facts for (fa, fop, fb) in self._orient(a, op, b) if self.lin(fa)[0] == tb and tb is not None]]
            for (uop, u, why) in cands:
                # tb (uop) u  =>  t = tb + tk <= u + tk - (1 if strict)
                ub, uk = self.lin(u)
                slack = tk - (1 if uop == "<" else 0)
                if ub is None:
                    top = ("c", c * (uk + slack))                       # c*t <= c*(n + tk - 1)
                elif ub[0] == "div" and ub[2] == ("c", c) and uk + slack <= -1:
                    top = self.mk_add(ub[1], ("c", c * (uk + slack + 1) - c)) if c * (uk + slack + 1) - c else ub[1]   # c*(L/c - 1) <= L - c
                else:
                    continue
                r = self.prove(self.mk_add(top, ("c", kx)) if kx else top, strict, y, site, facts, depth + 1)
                if r:
                    return "%s %s %s (%s) so %s <= %s; %s" % (named(self.fn, t), uop, named(self.fn, u), why, named(self.fn, bx), named(self.fn, top), r)
        # lower bounds of y by construction:  x <= l <= y
        if by is not None and ky >= 0:
            for lo in self.lower_facts(by):
                r = self.prove(x, strict, lo, site, facts, depth + 1)
                if r:
                    return "%s <= %s (by construction); %s" % (named(self.fn, lo), named(self.fn, by), r)
        # upper bounds of bx by construction / by value, then one transitive step through guards
        ups = [(uop, u, "by construction") for (uop, u) in self.upper_facts(bx) + self.value_facts(bx, site)]
        for (a, op, b, edge) in facts:
            for (fa, fop, fb) in self._orient(a, op, b):
                ba, ka = self.lin(fa)
                if ba == bx:
                    # bx + ka fop fb  =>  bx fop fb - ka
                    ups.append((fop, self.mk_add(fb, ("c", -ka)) if ka else fb, "guard on bb%d[%s]" % (edge[0], edge[1])))
        for (uop, u, why) in ups:
            if self.lin(u)[0] == bx:
                continue
            # x = bx + kx (uop) u + kx =: m ; need m (rel) y with the strictness that remains
            m = self.mk_add(u, ("c", kx)) if kx else u
            if uop == "<":
                # x < m: suffices m <= y (for x < y) and m <= y + 1 (for x <= y); prove the simpler m <= y
                r = self.prove(m, False, y, site, facts, depth + 1)
            else:
                r = self.prove(m, strict, y, site, facts, depth + 1)
            if r:
                return "%s %s %s (%s); %s" % (named(self.fn, x), uop, named(self.fn, m), why, r)
        return None

    @staticmethod
    def _orient(a, op, b):
        if op in ("<", "<="):
            return [(a, op, b)]
        if op == "==":
            return [(a, "<=", b), (b, "<=", a)]
        return []

    # ---------------------------------------------------------------------------------------- sites
    def sites(self):
        """[{pt, kind, root, obligations:[(x, strict, y, what)], desc}]"""
        fn = self.fn
        out = []
        for b in fn.blocks:
            if b.cleanup:
                continue
            t = b.term
            pt = P.term_pt(fn, b.idx)
            if t["t"] == "assert" and "bc_len" in t:
                ln = self.op_term(t["bc_len"])
                ix = self.op_term(t["bc_index"])
                out.append({"pt": pt, "kind": "index", "len": ln, "elem": self.elem_ty(ln[1]) if ln[0] == "len" else self._elem_of_const_len(b), "obl": [(ix, True, ln, "index < len")],
                            "desc": "%s[%s]" % (show(ln), show(ix)), "expn": bool(t["sp"][3]) if len(t["sp"]) > 3 else False})
            elif t["t"] == "call":
                ck = callee_skey(t) or ""
                if not INDEX_CALL.search(ck) or len(t["args"]) != 2:
                    continue
                ln = ("len", self.root(t["args"][0]))
                ity = self._op_ty(t["args"][1])
                ity_s = strip_generics(ity)
                obl = []
                desc = None
                if ity_s.startswith("core::ops::range::RangeFull"):
                    continue
                rg = self.range_agg(t["args"][1])
                if ity_s in ("usize",):
                    ix = self.op_term(t["args"][1])
                    obl = [(ix, True, ln, "index < len")]
                    desc = "%s[%s]" % (show(ln), show(ix))
                elif rg is None:
                    obl = [(("?",), True, ln, "range operand not resolved")]
                    desc = "%s[?%s]" % (show(ln), ity_s.rsplit("::", 1)[-1])
                else:
                    kind, ops = rg
                    if kind == "RangeTo":
                        obl = [(ops[0], False, ln, "end <= len")]
                        desc = "%s[..%s]" % (show(ln), show(ops[0]))
                    elif kind == "RangeFrom":
                        obl = [(ops[0], False, ln, "start <= len")]
                        desc = "%s[%s..]" % (show(ln), show(ops[0]))
                    elif kind == "Range":
                        obl = [(ops[1], False, ln, "end <= len"), (ops[0], False, ops[1], "start <= end")]
                        desc = "%s[%s..%s]" % (show(ln), show(ops[0]), show(ops[1]))
                    elif kind == "RangeToInclusive":
                        obl = [(ops[0], True, ln, "end < len")]
                        desc = "%s[..=%s]" % (show(ln), show(ops[0]))
                    elif kind == "RangeInclusive":
                        obl = [(ops[1], True, ln, "end < len"), (ops[0], False, self.mk_add(ops[1], ("c", 1)), "start <= end+1")]
                        desc = "%s[%s..=%s]" % (show(ln), show(ops[0]), show(ops[1]))
                    else:
                        obl = [(("?",), True, ln, "unknown range kind " + kind)]
                        desc = "%s[%s]" % (show(ln), kind)
                out.append({"pt": pt, "kind": "range" if rg else "index", "len": ln, "elem": self.elem_ty(ln[1]), "obl": obl, "desc": desc,
                            "expn": bool(t["sp"][3]) if len(t["sp"]) > 3 else False})
        return out

    def _elem_of_const_len(self, b):
        """Array indexing `a[i]`: bc_len is a constant; the element type comes from the indexing statement that follows."""
        nxt = self.fn.blocks[b.term["to"]]
        for st in nxt.st:
            if st["s"] != "=":
                continue
            for pl in [st["lhs"], st["rv"].get("pl"), (st["rv"].get("a") or {}).get("pl") if isinstance(st["rv"].get("a"), dict) else None]:
                if pl and any(isinstance(e, dict) and "ix" in e for e in pl["p"]):
                    base = {"l": pl["l"], "p": pl["p"][:[i for i, e in enumerate(pl["p"]) if isinstance(e, dict) and "ix" in e][0]]}
                    ty = self._op_ty({"k": "copy", "pl": base})
                    self.root_ty[("tmp",)] = ty
                    return self.elem_ty(("tmp",))
        return ""

    # ---------------------------------------------------------------------------------------- overflow sites
    TAINT = re.compile(r"(^|::)(unpack|unpack_\w+|from_le_bytes|from_be_bytes|from_ne_bytes|from_str_radix|parse)$|Into>::into$|TryInto>::try_into$")

    def tainted(self, op):
        """The operand's value comes from decoded input (a varint / fixed-width decode or a conversion of one)."""
        if op.get("k") not in ("copy", "move"):
            return False
        srcs, _locs = P.value_slice(self.fn, op)      # through arithmetic: `n * 4` of a decoded n is decoded too
        return any(s_["k"] == "call" and self.TAINT.search(s_["callee"]) for s_ in srcs)

    def overflow_sites(self):
        """Overflow asserts (`a + b`, `a - b`, `a * b` on usize/u64) where an operand is decoded input."""
        out = []
        for b in self.fn.blocks:
            if b.cleanup:
                continue
            t = b.term
            if t["t"] != "assert" or "Overflow(" not in t.get("msg", ""):
                continue
            st = next((st_ for st_ in reversed(b.st) if st_["s"] == "=" and st_["rv"]["r"] == "bin" and st_["rv"]["op"].endswith("WithOverflow")), None)
            if st is None:
                continue
            a, c = st["rv"]["a"], st["rv"]["b"]
            if not (self.tainted(a) or self.tainted(c)):
                continue
            out.append({"pt": P.term_pt(self.fn, b.idx), "op": st["rv"]["op"][:3], "a": a, "b": c,
                        "ta": self.op_term(a), "tb": self.op_term(c)})
        return out

    def bounded(self, op, site):
        """A decoded operand is bounded when some dominating comparison caps it by a buffer length or a constant, or its
        construction does (u8/u16/u32 widths, min, %, &)."""
        t = self.op_term(op)
        if t[0] == "c":
            return "constant"
        base, _k = self.lin(t)
        if base is None:
            return "constant"
        if base[0] == "len":
            return "a buffer length"
        ty = self.narrow_source(op)
        if ty in ("u8", "u16", "u32"):
            return "a %s" % ty
        for (uop, u) in self.upper_facts(base) + self.value_facts(base, site):
            if self.lin(u)[0] is None or self.lin(u)[0][0] == "len":
                return "bounded by construction (%s %s)" % (uop, named(self.fn, u))
        for (a, op_, b, edge) in self.dominating_facts(site):
            for (fa, fop, fb) in self._orient(a, op_, b):
                if self.lin(fa)[0] == base:
                    ub = self.lin(fb)[0]
                    if ub is None or ub[0] == "len":
                        return "guard %s %s %s on bb%d[%s]" % (named(self.fn, fa), fop, named(self.fn, fb), edge[0], edge[1])
        if not self.tainted(op):
            return "not decoded input"
        return None

    def narrow_source(self, op):
        """Type of the operand, or of the narrower integer it was widened from (`x as usize` of a u32)."""
        ty = self._op_ty(op)
        for _ in range(6):
            if ty in ("u8", "u16", "u32") or op.get("k") not in ("copy", "move") or op["pl"]["p"]:
                break
            ds = [(pt, kind, p) for (pt, kind, p) in self.defs.of(op["pl"]["l"]) if kind in ("assign", "call")]
            if len(ds) != 1 or ds[0][1] != "assign" or ds[0][2]["rv"]["r"] not in ("use", "cast") or ds[0][2]["lhs"]["p"]:
                break
            op = ds[0][2]["rv"]["a"]
            ty = self._op_ty(op)
        return ty

    def decide_overflow(self, s):
        if s["op"] in ("Add", "Mul"):
            ra, rb = self.bounded(s["a"], s["pt"]), self.bounded(s["b"], s["pt"])
            return (ra and rb) and "%s; %s" % (ra, rb) or None
        # a - b: b <= a
        return self.prove(s["tb"], False, s["ta"], s["pt"])

    def range_agg(self, op):
        if op.get("k") not in ("copy", "move"):
            return None
        l = op["pl"]["l"]
        for (pt, kind, p) in self.defs.of(l):
            if kind == "assign" and p["rv"]["r"] == "agg":
                adt = strip_generics(p["rv"].get("adt", ""))
                if adt.startswith("core::ops::range::Range"):
                    return adt.rsplit("::", 1)[-1], [self.op_term(o) for o in p["rv"]["ops"]]
                if adt.startswith("core::range::"):
                    return adt.rsplit("::", 1)[-1], [self.op_term(o) for o in p["rv"]["ops"]]
            if kind == "call":
                ck = callee_skey(p) or ""
                if ck.endswith("RangeInclusive::new"):
                    return "RangeInclusive", [self.op_term(o) for o in p["args"]]
        return None

    def decide(self, site):
        """[(what, justification or None)] for each obligation of the site."""
        res = []
        for (x, strict, y, what) in site["obl"]:
            if x == ("?",):
                res.append((what, None))
                continue
            res.append((what, self.prove(x, strict, y, site["pt"])))
        return res


def show(t, fn=None):
    if not isinstance(t, tuple):
        return str(t)
    k = t[0]
    if k == "c":
        return str(t[1])
    if k == "pl":
        return "_%d%s" % (t[1], "".join("." + n for n in t[2]))
    if k == "len":
        return "len(%s)" % show(t[1])
    if k == "add":
        return "(" + " + ".join(show(x) for x in t[1:]) + ")"
    if k == "sub":
        return "(%s - %s)" % (show(t[1]), show(t[2]))
    if k in ("min", "rem", "and", "mul", "shr", "satsub", "div"):
        return "%s(%s, %s)" % (k, show(t[1]), show(t[2]))
    if k == "cmp":
        return "(%s %s %s)" % (show(t[2]), t[1], show(t[3]))
    return "%s(%s)" % (k, ", ".join(show(x) for x in t[1:]))


def named(fn, t):
    """show() with user variable names where a local carries one (for messages; keys use sig())."""
    if not isinstance(t, tuple):
        return str(t)
    if t[0] == "pl":
        n = fn.local_name(t[1])
        base = n if n else "_%d" % t[1]
        if base == "self" or True:
            return base + "".join("." + x for x in t[2])
    if t[0] == "c":
        return str(t[1])
    if t[0] == "len":
        return "%s.len()" % named(fn, t[1])
    if t[0] == "add":
        return "(" + " + ".join(named(fn, x) for x in t[1:]) + ")"
    if t[0] == "sub":
        return "(%s - %s)" % (named(fn, t[1]), named(fn, t[2]))
    if t[0] == "cmp":
        return "(%s %s %s)" % (named(fn, t[2]), t[1], named(fn, t[3]))
    return "%s(%s)" % (t[0], ", ".join(named(fn, x) for x in t[1:]))
