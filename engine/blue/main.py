"""CLI + rule context: runs one property's rule set over the extracted facts, writes evidence,
prints KNOWN-FINDING / VIOLATION lines."""
import importlib
import json
import os
import re
import sys
import time

from . import extract as X
from . import facts as F
from . import prim as P
from . import inline as I

VERIF = X.VERIF
PROPS = ["C%02d" % i for i in range(1, 21)]


class Violation:
    def __init__(self, rule, fn_key, construct, ordinal, message, loc=None, path=None, kind="violated"):
        self.rule = rule
        self.fn_key = fn_key
        self.construct = construct
        self.ordinal = ordinal
        self.message = message
        self.loc = loc
        self.path = path
        self.kind = kind

    @property
    def key(self):
        return "%s|%s|%s|%d" % (self.rule, self.fn_key, self.construct, self.ordinal)


class Ctx:
    """What a rule module sees."""

    def __init__(self, prop, prog, tier, repo):
        self.prop = prop
        self.prog = prog
        self.tier = tier
        self.repo = repo
        self.violations = []
        self.obligations = []      # (rule, fn_key, description, ok, sites)
        self.instances = {}        # rule id -> {"why":..., "sites":[...], "matched":n}
        self.exceptions = []       # (rule, fn, construct, why) actually used
        self.notes = []
        self._ord = {}
        self._via = {}     # (fn key, point) -> [(pattern, arg_pred)] for sites matched through a helper

    # -- anchors --------------------------------------------------------------------------------
    def fn(self, rule, key):
        try:
            f = self.prog.fn(key)
        except KeyError as e:
            f = None
            self.notes.append(str(e))
        if f is None:
            self.violate(rule, key, "anchor", "anchor function %s not found in the extracted program "
                         "(renamed or removed: the rule cannot be evaluated)" % key, kind="anchor-missing")
            return f
        # seen through freshly extracted single-use helpers (engine/blue/inline.py); identical to f on the tree the rules were written on
        v = I.view(self.prog, f)
        if v is not f:
            self.notes.append("%s: looked through new helper(s) %s" % (f.skey, ", ".join(getattr(v, "inlined", []))))
        return v

    def fns(self, rule, pattern, floor=1):
        fs = self.prog.fns_matching(pattern)
        if len(fs) < floor:
            self.violate(rule, pattern, "anchor", "only %d functions match %s (floor %d)" % (len(fs), pattern, floor),
                         kind="below-floor")
        return fs

    # -- recording ------------------------------------------------------------------------------
    def declare(self, rule, why):
        self.instances.setdefault(rule, {"why": why, "sites": [], "matched": 0, "failed": 0})

    def ok(self, rule, fn, desc, sites=()):
        """Record a discharged obligation (one matched site / instance)."""
        inst = self.instances.setdefault(rule, {"why": "", "sites": [], "matched": 0, "failed": 0})
        inst["matched"] += 1
        fk = fn.skey if hasattr(fn, "skey") else str(fn)
        s = {"fn": fk, "what": desc}
        if sites:
            s["at"] = [P.pt_loc(fn, p) if isinstance(p, tuple) else p for p in sites][:6]
        if len(inst["sites"]) < 40:
            inst["sites"].append(s)
        self.obligations.append((rule, fk, desc, True))

    def violate(self, rule, fn, construct, message, pt=None, path=None, kind="violated"):
        fk = fn.skey if hasattr(fn, "skey") else str(fn)
        okey = (rule, fk, construct)
        n = self._ord.get(okey, 0)
        self._ord[okey] = n + 1
        loc = None
        ptxt = None
        if hasattr(fn, "blocks"):
            loc = P.pt_loc(fn, pt) if pt is not None else fn.loc()
            if path:
                ptxt = P.path_text(fn, path)
        v = Violation(rule, fk, construct, n, message, loc, ptxt, kind)
        self.violations.append(v)
        inst = self.instances.setdefault(rule, {"why": "", "sites": [], "matched": 0, "failed": 0})
        inst["matched"] += 1
        inst["failed"] += 1
        self.obligations.append((rule, fk, "%s: %s" % (construct, message), False))
        return v

    def check(self, rule, fn, construct, cond, desc, fail_msg=None, pt=None, path=None, sites=()):
        if cond:
            self.ok(rule, fn, desc, sites or ([pt] if pt else ()))
        else:
            self.violate(rule, fn, construct, fail_msg or ("expected: " + desc), pt=pt, path=path)
        return cond

    def floor(self, rule, what, count, floor):
        """Fail closed when a rule matches fewer sites than were counted by hand."""
        if count < floor:
            self.violate(rule, what, "floor", "matched %d sites, floor is %d (the rule would pass vacuously)" % (count, floor),
                         kind="below-floor")
            return False
        return True

    def exception(self, rule, fn_key, construct, why):
        self.exceptions.append({"rule": rule, "fn": fn_key, "construct": construct, "why": why})

    # -- composite helpers used by many rules ------------------------------------------------------
    def calls(self, rule, fn, pat, floor=1, arg_pred=None, what=None):
        pts = P.call_points(fn, pat, arg_pred)
        if len(pts) < floor:
            # the call may have been moved into a helper: a helper all of whose success paths perform it counts
            # (MustCall summary, inlining bound 3)
            closed = P.call_points_closed(self.prog, fn, pat, arg_pred, depth=3)
            if len(closed) >= floor:
                self.notes.append("%s: %s matched through a helper in %s" % (rule, what or pat, fn.skey))
                for pt in closed:
                    if pt not in pts:
                        self._via.setdefault((fn.key, pt), []).append((pat, arg_pred))
                pts = closed
        if len(pts) < floor:
            self.violate(rule, fn, "call:" + (what or pat), "expected at least %d call(s) to %s in %s, found %d"
                         % (floor, what or pat, fn.skey, len(pts)), kind="below-floor")
        return pts

    def direct_sites(self, fn, pt, pat=None):
        """Where the call really happens: [(function, point)].  For a site matched through a helper (MustCall
        closure) these are the direct sites inside the helper(s); otherwise the site itself."""
        via = self._via.get((fn.key, pt))
        if not via:
            return [(fn, pt)]
        out = []
        t = P.term_at(fn, pt)
        for p_, pred in via:
            if pat is not None and p_ != pat:
                continue
            for k in self.prog.targets(t):
                g = self.prog.fns.get(k)
                if not g:
                    continue
                for q in P.call_points_closed(self.prog, g, p_, pred, depth=2):
                    if P.call_points(g, p_, pred) and q in P.call_points(g, p_, pred):
                        out.append((g, q))
        return out or [(fn, pt)]

    def _order_inside_helper(self, fn, pt):
        """pt satisfies both ends of an ordering through one helper call: check the order inside the helper."""
        via = self._via.get((fn.key, pt), [])
        if len(via) < 2:
            return None
        t = P.term_at(fn, pt)
        res = []
        for k in self.prog.targets(t):
            g = self.prog.fns.get(k)
            if g:
                res.append((g, via))
        return res

    def order_chain(self, rule, fn, chain, cycles=False):
        """chain: list of (label, points).  Each consecutive pair must satisfy A ≺ B."""
        allok = True
        for (la, a), (lb, b) in zip(chain, chain[1:]):
            if not a or not b:
                allok = False
                continue
            both = [p for p in b if p in a and (fn.key, p) in self._via]
            if both:
                # the same helper call performs A and B: the order is decided inside the helper
                ok_inside = True
                for p in both:
                    t = P.term_at(fn, p)
                    via = self._via[(fn.key, p)]
                    for k in self.prog.targets(t):
                        g = self.prog.fns.get(k)
                        if not g or len(via) < 2:
                            continue
                        ga = P.call_points_closed(self.prog, g, via[0][0], via[0][1], depth=2)
                        gb = P.call_points_closed(self.prog, g, via[-1][0], via[-1][1], depth=2)
                        # which of the two patterns is A is unknown here: accept if the two sets are totally ordered
                        # in the order first-registered ≺ last-registered (rules request A before B)
                        if P.order(g, ga, gb):
                            ok_inside = False
                if ok_inside:
                    self.ok(rule, fn, "%s precedes %s inside the helper called at %s" % (la, lb, P.pt_loc(fn, both[0])), both[:1])
                    b = [p for p in b if p not in both]
                    if not b:
                        continue
            bad = P.order(fn, a, b, cycles=cycles)
            if bad:
                allok = False
                for (bp, path) in bad:
                    self.violate(rule, fn, "%s<%s" % (la, lb),
                                 "%s at %s is reachable without first passing %s" % (lb, P.pt_loc(fn, bp), la),
                                 pt=bp, path=path)
            else:
                self.ok(rule, fn, "%s precedes %s on every path" % (la, lb), list(a)[:2] + list(b)[:2])
        return allok

    def must_pass(self, rule, fn, label, through, goals=None, starts=P.ENTRY, avoid_edges=(), extra_avoid=()):
        if not through:
            self.violate(rule, fn, "through:" + label, "no %s site found in %s" % (label, fn.skey), kind="below-floor")
            return False
        p = P.must_pass(fn, through, goals=goals, starts=starts, avoid_edges=avoid_edges, extra_avoid=extra_avoid)
        if p is not None:
            self.violate(rule, fn, "bypass:" + label, "a success path does not pass %s" % label,
                         pt=p[-1][1] if isinstance(p[-1], tuple) else None, path=p)
            return False
        self.ok(rule, fn, "every success path passes %s" % label, list(through)[:4])
        return True


# --------------------------------------------------------------------------------------------------

def load_known():
    p = os.path.join(VERIF, "known_findings.json")
    if not os.path.exists(p):
        return []
    return json.load(open(p))["findings"]


def run_property(prop, tier, repo="/repo", quiet=False, write_evidence=True, scope=None):
    t0 = time.time()
    scope = scope or ("quick" if tier == "quick" else "full")
    facts_dir, info = X.extract(repo=repo, scope=scope)
    prog = F.Program(facts_dir)
    # completeness guard
    ctx = Ctx(prop, prog, tier, repo)
    for c, floor in X.CRATE_FLOORS.items():
        got = prog.crates.get(c, {}).get("fns", 0)
        if got < floor:
            ctx.violate("EXTRACT", c, "crate", "crate %s: %d functions extracted, floor %d (driver skipped it?)" % (c, got, floor),
                        kind="below-floor")
    mod = importlib.import_module("rules." + prop)
    try:
        mod.rules(ctx)
    except Exception as e:      # a rule that cannot read the tree in front of it fails closed, it does not crash the check
        import traceback
        tb = traceback.extract_tb(e.__traceback__)
        where = "; ".join("%s:%d %s" % (os.path.basename(fr.filename), fr.lineno, fr.name) for fr in tb[-3:])
        ctx.violate("ENGINE", prop, "rule-evaluation", "a rule of %s could not be evaluated on this tree (%s: %s at %s): the constructs it reads "
                    "have changed shape; the rules after it were not run" % (prop, type(e).__name__, e, where), kind="rule-crashed")
    extra = {}
    if tier == "thorough" and hasattr(mod, "thorough"):
        extra = mod.thorough(ctx) or {}
    if tier == "thorough" and repo == "/repo" and prop in WITNESSES:
        wres = run_witnesses(prop)
        extra["witnesses"] = wres
        for w in wres["results"]:
            if w["status"] != "ok":
                ctx.violate("W" + w["name"][1:2], "witness::" + w["name"], "witness", "compile-%s witness no longer holds: %s" % (w["kind"], w["line"]))
            else:
                ctx.ok("W" + w["name"][1:2], "witness::" + w["name"], "%s witness %s holds" % (w["kind"], w["line"]))
    if tier == "thorough" and repo == "/repo" and os.environ.get("VERIF_NO_VARIANTS") != "1":
        extra.update(run_variants(prop))
    known = [k for k in load_known() if k["property"] == prop]
    known_keys = {k["key"]: k for k in known if k.get("status") == "known"}
    lines = []
    new = []
    hit = []
    for v in ctx.violations:
        if v.key in known_keys:
            hit.append(v)
            lines.append("KNOWN-FINDING: property=%s %s %s" % (prop, v.key, known_keys[v.key]["what"]))
        else:
            new.append(v)
    replay_dir = os.path.join(VERIF, "evidence", "replay")
    if write_evidence:
        os.makedirs(replay_dir, exist_ok=True)
        for old in os.listdir(replay_dir):
            if old.startswith(prop + "-"):
                try:
                    os.unlink(os.path.join(replay_dir, old))
                except FileNotFoundError:
                    pass
    for n, v in enumerate(new, 1):
        rp = os.path.join(replay_dir, "%s-%d.json" % (prop, n))
        if write_evidence:     # variant self-tests (tools/mutate.py) analyse scratch copies and leave /verif/evidence alone
            with open(rp, "w") as fh:
                json.dump({"property": prop, "rule": v.rule, "key": v.key, "kind": v.kind, "message": v.message,
                           "loc": v.loc, "path": v.path, "facts_hash": info.get("tree_hash")}, fh, indent=1)
        lines.append("%s %s %s in %s: %s" % (v.loc or "-", v.rule, v.kind, v.fn_key, v.message))
        if v.path:
            lines.append("   path: %s" % v.path)
        lines.append("VIOLATION property=%s replay=%s" % (prop, rp))
    wall = time.time() - t0
    if write_evidence:
        write_ev(prop, tier, ctx, info, wall, new, hit, extra, mod)
    if not quiet:
        n_ob = len(ctx.obligations)
        print("%s [%s] %d obligations over %d rule instances, %d discharged, %d known findings, %d violations "
              "(facts %s, %s, %.1fs)" % (prop, tier, n_ob, len(ctx.instances), sum(1 for o in ctx.obligations if o[3]),
                                         len(hit), len(new), info.get("tree_hash"), info.get("cache"), wall))
        for l in lines:
            print(l)
    return (1 if new else 0), ctx, new, hit


WITNESSES = {"C07": "w3", "C10": "w4", "C13": "w5", "C17": "w1", "C18": "w2"}


def run_witnesses(prop):
    """Thorough tier: compile-fail / compile-pass twins (rustdoc `compile_fail,E0xxx` needs nightly).  Nothing is
    executed: passing twins are `no_run`."""
    import shutil
    import subprocess
    wdir = os.path.join(VERIF, "witness")
    shutil.copy("/repo/Cargo.lock", os.path.join(wdir, "Cargo.lock"))
    env = dict(os.environ, CARGO_TARGET_DIR=os.path.join(X.WORK, "witness-target"), CARGO_NET_OFFLINE="true")
    name = WITNESSES[prop]
    r = subprocess.run(["cargo", "+nightly", "test", "--doc", "--offline", name], cwd=wdir, env=env, stdout=subprocess.PIPE, stderr=subprocess.STDOUT, text=True)
    results = []
    for line in r.stdout.splitlines():
        m = re.match(r"^test src/lib.rs - (\w+) \(line (\d+)\)( - compile fail| - compile)? \.\.\. (\w+)", line)
        if m:
            results.append({"name": m.group(1), "line": "witness/src/lib.rs:%s" % m.group(2), "kind": "fail" if "fail" in (m.group(3) or "") else "pass",
                            "status": "ok" if m.group(4) == "ok" else "FAILED"})
    if not results:
        results.append({"name": name, "line": "witness/src/lib.rs", "kind": "build", "status": "FAILED: " + r.stdout[-400:]})
    return {"cmd": "cargo +nightly test --doc --offline " + name, "results": results}


def run_variants(prop):
    """Thorough tier: checker self-test on the seeded variants of this property (mutants/ and seeded/)."""
    from concurrent.futures import ThreadPoolExecutor
    sys.path.insert(0, os.path.join(VERIF, "tools"))
    import mutate
    items = [i for i in mutate.collect(os.path.join(VERIF, "mutants")) + mutate.collect(os.path.join(VERIF, "seeded"))
             if i[1] == prop]
    if not items:
        return {"variants": {"total": 0, "detected": 0, "list": []}}
    with ThreadPoolExecutor(max_workers=4) as ex:
        results = list(ex.map(lambda it: mutate.run_one(*it), items))
    lst = [{"patch": r["patch"], "result": r["result"], "rules": r.get("rules", [])} for r in results]
    det = sum(1 for r in results if r["result"] == "detected")
    for r in results:
        if r["result"] != "detected":
            print("variant not detected: %s (%s) %s" % (r["patch"], r["result"], r.get("detail", "")[-300:]))
    return {"variants": {"total": len(results), "detected": det, "list": lst,
                         "note": "each variant is a source edit that still type-checks; the checker must report it by rule"}}


def write_ev(prop, tier, ctx, info, wall, new, hit, extra, mod):
    prog = ctx.prog
    n_ob = len(ctx.obligations)
    n_ok = sum(1 for o in ctx.obligations if o[3])
    samples = []
    for rid, inst in sorted(ctx.instances.items()):
        if inst["sites"]:
            samples.append({"rule": rid, "why": inst["why"], "matched_sites": inst["sites"][:6]})
    crates = {c: v for c, v in prog.crates.items() if c in X.CRATE_FLOORS}
    cov = {
        "explanation": getattr(mod, "EXPLANATION", "") + "  Decided from MIR (mir-opt-level=0) of the real `cargo check` build, "
                       "extracted by the bluefacts rustc driver; nothing in rescrv/blue is executed.",
        "obligations": n_ob,
        "discharged": n_ok,
        "evaluations": n_ob,
        "distinct_nontrivial": sum(1 for i in ctx.instances.values() if i["matched"] > 0),
        "rule": "one obligation per (rule instance, matched site); an instance is non-trivial when it matched at least one "
                "concrete site in the extracted program; instances below their hand-counted floor fail closed",
        "samples": samples[:12],
        "rule_instances": {rid: {"why": i["why"], "matched": i["matched"], "failed": i["failed"]}
                           for rid, i in sorted(ctx.instances.items())},
        "functions_analysed": len(prog.fns),
        "call_sites_analysed": sum(v["calls"] for v in prog.crates.values()),
        "call_sites_resolved": sum(v["resolved"] for v in prog.crates.values()),
        "crates": crates,
        "facts_hash": info.get("tree_hash"),
        "extraction": info,
        "exceptions": ctx.exceptions,
        "known_findings_hit": [v.key for v in hit],
        "not_decided": getattr(mod, "NOT_DECIDED", ""),
        "checker_cmd": "./check %s --tier %s" % (prop, tier),
        "trusted_base": ["rustc nightly type checker, MIR construction and Instance::try_resolve",
                         "bluefacts serialisation (function/call-site counts floored per crate)",
                         "bluecheck CFG algorithms (engine/tests)", "hand-confirmed rule tables in rules/%s.py" % prop],
    }
    cov.update(extra)
    ev = {
        "property_id": prop,
        "tier": tier,
        "seed": int(os.environ.get("VERIF_SEED", "0") or 0),
        "level": "other",
        "coverage": cov,
        "assumptions": getattr(mod, "ASSUMPTIONS", []) + [
            "static analysis of code shape only: the behavioural remainder listed under not_decided is not claimed",
            "path-insensitive: infeasible paths can only cause over-reporting, which was triaged before arming"],
        "wall_s": round(wall, 2),
        "violations": len(new),
    }
    os.makedirs(os.path.join(VERIF, "evidence"), exist_ok=True)
    tmp = os.path.join(VERIF, "evidence", "%s.json.tmp%d" % (prop, os.getpid()))
    with open(tmp, "w") as fh:
        json.dump(ev, fh, indent=1, default=str)
    os.replace(tmp, os.path.join(VERIF, "evidence", "%s.json" % prop))


def main(argv):
    sys.path.insert(0, VERIF)
    if not argv:
        print(__doc__)
        return 2
    repo = os.environ.get("VERIF_REPO", "/repo")
    if argv[0] == "--show":
        scope = os.environ.get("VERIF_SCOPE", "quick")
        facts_dir, info = X.extract(repo=repo, scope=scope)
        prog = F.Program(facts_dir)
        for f in prog.fns_matching(argv[1]):
            F.show(f)
            print()
        return 0
    if argv[0] == "--list":
        scope = os.environ.get("VERIF_SCOPE", "quick")
        facts_dir, info = X.extract(repo=repo, scope=scope)
        prog = F.Program(facts_dir)
        for f in sorted(prog.fns_matching(argv[1]), key=lambda f: f.key):
            print(f.key, f.loc())
        return 0
    if argv[0] == "--replay":
        d = json.load(open(argv[1]))
        rc, ctx, new, hit = run_property(d["property"], "quick", repo=repo, quiet=True, write_evidence=False)
        for v in new + hit:
            if v.key == d["key"]:
                print("%s %s %s: %s" % (v.loc, v.rule, v.kind, v.message))
                if v.path:
                    print("   path: %s" % v.path)
                print("VIOLATION property=%s replay=%s" % (d["property"], argv[1]))
                return 1
        print("instance %s holds on the current tree" % d["key"])
        return 0
    prop = argv[0]
    tier = os.environ.get("VERIF_TIER", "quick")
    if "--tier" in argv:
        tier = argv[argv.index("--tier") + 1]
    if prop == "all":
        rc = 0
        for p in PROPS:
            if os.path.exists(os.path.join(VERIF, "rules", p + ".py")):
                r, _, _, _ = run_property(p, tier, repo=repo)
                rc = rc or r
        return rc
    if prop not in PROPS:
        print("unknown property", prop)
        return 2
    rc, _, _, _ = run_property(prop, tier, repo=repo)
    return rc
