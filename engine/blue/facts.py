"""Load bluefacts JSON and expose the resolved program: functions, CFGs, call sites, ADTs, impls, consts."""
import json
import os
import re
from collections import defaultdict


def strip_generics(s):
    """`a::B::<T>::c` -> `a::B::c`; `<a::B<T> as c::D<U>>::e` -> `<a::B as c::D>::e` (nesting aware)."""
    out = []
    depth = 0
    i = 0
    n = len(s)
    while i < n:
        c = s[i]
        if c == "<":
            # keep the leading '<' of a qualified path `<T as Trait>` (at start or after a space/'(' / '&' / ',')
            prev = s[i - 1] if i > 0 else ""
            if depth == 0 and (i == 0 or prev in " (&,[*"):
                out.append(c)
                # find matching '>' at this nesting level and process the inside recursively
                j = i + 1
                d = 1
                while j < n and d > 0:
                    if s[j] == "<":
                        d += 1
                    elif s[j] == ">" and s[j - 1] != "-":
                        d -= 1
                    j += 1
                inner = s[i + 1:j - 1]
                out.append(strip_generics(inner))
                out.append(">")
                i = j
                continue
            depth += 1
        elif c == ">" and depth > 0 and (i == 0 or s[i - 1] != "-"):
            depth -= 1
            if depth == 0 and out and out[-1].endswith("::"):
                # `Foo::<T>` -> drop the trailing `::`
                out[-1] = out[-1][:-2]
            i += 1
            continue
        if depth == 0:
            if c == ":" and s[i:i + 3] == "::<":
                out.append("::")
                i += 2
                continue
            out.append(c)
        i += 1
    r = "".join(out)
    return r


class Block:
    __slots__ = ("idx", "st", "term", "cleanup", "tsp", "succs")

    def __init__(self, idx, d):
        self.idx = idx
        self.st = d["st"]
        self.term = d["term"]
        self.cleanup = d["cleanup"]
        self.tsp = d["tsp"]
        t = self.term
        k = t["t"]
        succ = []
        if k == "goto":
            succ.append(("goto", t["to"]))
        elif k == "switch":
            for v, b in t["arms"]:
                succ.append(("sw:%d" % v, b))
            # canonical labels: a two-way switch written with one explicit arm (`if x`, `if let Some(..)`,
            # `match` with a wildcard) gets the complementary value as the label of its other edge, so that
            # rules can say sw:0 / sw:1 (false/true, None/Some, Ok/Err) regardless of the source form.
            if len(t["arms"]) == 1 and t["arms"][0][0] in (0, 1):
                succ.append(("sw:%d" % (1 - t["arms"][0][0]), t["otherwise"]))
            else:
                succ.append(("otherwise", t["otherwise"]))
        elif k == "drop":
            succ.append(("drop", t["to"]))
        elif k == "call":
            if t["to"] is not None:
                succ.append(("ret", t["to"]))
        elif k == "assert":
            succ.append(("ok", t["to"]))
        self.succs = succ

    @property
    def call(self):
        return self.term if self.term["t"] == "call" else None


class Fn:
    def __init__(self, d, crate):
        self.key = d["key"]
        self.skey = strip_generics(self.key)
        self.crate = crate
        self.kind = d["kind"]
        self.sp = d["sp"]
        self.argc = d["argc"]
        self.locals = d["locals"]
        self.names = d["names"]
        self.parent = d.get("parent")
        self.impl_self = d.get("impl_self")
        self.impl_trait = d.get("impl_trait")
        self.name = d.get("name")
        self.default_of_trait = d.get("default_of_trait")
        self.pub = d.get("pub", False)
        self.blocks = [Block(i, b) for i, b in enumerate(d["blocks"])]
        self._preds = None
        self._closures = None

    @property
    def file(self):
        return self.sp[0]

    @property
    def line(self):
        return self.sp[1]

    def loc(self):
        return "%s:%d" % (relpath(self.sp[0]), self.sp[1])

    @property
    def preds(self):
        if self._preds is None:
            p = defaultdict(list)
            for b in self.blocks:
                for lab, s in b.succs:
                    p[s].append(b.idx)
            self._preds = p
        return self._preds

    def calls(self):
        """(block, term) for every call terminator."""
        for b in self.blocks:
            if b.term["t"] == "call":
                yield b, b.term

    def local_name(self, l):
        for n, pl in self.names:
            if pl["l"] == l and not pl["p"]:
                return n
        return None

    def local_ty(self, l):
        return self.locals[l]

    def __repr__(self):
        return "<Fn %s>" % self.key


def relpath(p):
    for pre in ("/repo/",):
        if p.startswith(pre):
            return p[len(pre):]
    m = re.match(r"^/tmp/[^/]+/(?:repo/)?(.*)$", p)
    if m:
        return m.group(1)
    return p


def callee_key(t):
    """Resolved callee (if any) else the declared item."""
    return t.get("callee") or t.get("decl")


def callee_skey(t):
    k = callee_key(t)
    return strip_generics(k) if k else None


class Program:
    def __init__(self, facts_dir, crates=None):
        self.facts_dir = facts_dir
        self.fns = {}          # key -> Fn
        self.by_skey = defaultdict(list)  # generic-stripped key -> [Fn]
        self.adts = {}
        self.impls = []        # {self, trait?, fns: [[name, key]]}
        self.consts = {}
        self.crates = {}
        self.dup_keys = 0
        seen = set()
        for f in sorted(os.listdir(facts_dir)):
            if not f.endswith(".json"):
                continue
            name = f.rsplit("-", 1)[0]
            if crates is not None and name not in crates:
                continue
            d = json.load(open(os.path.join(facts_dir, f)))
            ident = (d["crate"], tuple(d["crate_types"]))
            if ident in seen:
                continue   # same crate compiled twice (host + target)
            seen.add(ident)
            self.crates.setdefault(d["crate"], {"fns": 0, "calls": 0, "resolved": 0, "types": d["crate_types"]})
            cst = self.crates[d["crate"]]
            for fd in d["fns"]:
                fn = Fn(fd, d["crate"])
                if fn.key in self.fns:
                    self.dup_keys += 1
                    continue
                self.fns[fn.key] = fn
                self.by_skey[fn.skey].append(fn)
                cst["fns"] += 1
                for b, t in fn.calls():
                    cst["calls"] += 1
                    if t.get("callee"):
                        cst["resolved"] += 1
            for a in d["adts"]:
                self.adts.setdefault(a["key"], a)
            for im in d["impls"]:
                im["crate"] = d["crate"]
                self.impls.append(im)
            for c in d["consts"]:
                self.consts.setdefault(c["key"], c)
        # trait method -> impl fn keys (class hierarchy analysis)
        self.trait_impls = defaultdict(list)   # (trait, method) -> [fn key]
        for im in self.impls:
            tr = im.get("trait")
            if tr:
                for name, key in im["fns"]:
                    self.trait_impls[(strip_generics(tr), name)].append(key)
        self._callgraph = None
        self._closures_of = None
        # functions that only ever return Err: `return fail(..)` in a caller is an error exit (prim.error_points)
        from . import prim as _P
        _P.ALWAYS_ERR.clear()
        for fn in self.fns.values():
            if fn.kind != "Closure" and fn.locals and fn.locals[0].startswith("core::result::Result<"):
                try:
                    if _P.always_err(fn):
                        _P.ALWAYS_ERR.add(fn.key)
                        _P.ALWAYS_ERR.add(fn.skey)
                except Exception:
                    pass

        self.spliced = {}          # key of a helper that was looked through -> key of the function it was spliced into
        if os.environ.get("VERIF_NO_INLINE") != "1":
            self._look_through_new_helpers()

    def _look_through_new_helpers(self):
        """Program-level normalisation (engine/blue/inline.py): every private single-use helper that is not in the frozen table of known
        functions is spliced into its one caller and disappears as a function of its own, for every rule alike.  A no-op on the tree the
        rules were written on."""
        from . import inline as _I
        if _I.known_fns() is None:
            return
        gone = {}
        repl = {}
        for f in list(self.fns.values()):
            v = _I.view(self, f)
            if v is not f:
                repl[f.key] = v
                for gk in getattr(v, "inlined_keys", ()):
                    gone[gk] = f.key
        if not repl:
            return
        for k, v in repl.items():
            old = self.fns[k]
            self.fns[k] = v
            self.by_skey[v.skey] = [v if x is old else x for x in self.by_skey[v.skey]]
        for gk, into in gone.items():
            g = self.fns.pop(gk, None)
            if g is not None:
                self.by_skey[g.skey] = [x for x in self.by_skey[g.skey] if x is not g]
                self.spliced[gk] = into
        self._callgraph = None
        self._closures_of = None
        self._inline_sites = None
        self._inline_views = {}

    # ------------------------------------------------------------------------------------------
    def fn(self, key):
        """Look a function up by exact key or by generic-stripped key (must be unique)."""
        f = self.fns.get(key)
        if f:
            return f
        c = self.by_skey.get(key) or self.by_skey.get(strip_generics(key))
        if c and len(c) == 1:
            return c[0]
        if c and len(c) > 1:
            raise KeyError("ambiguous function key %s: %s" % (key, [x.key for x in c]))
        return None

    def fns_matching(self, pattern):
        rx = re.compile(pattern)
        return [f for f in self.fns.values() if rx.search(f.skey)]

    def closures_of(self, fn):
        if self._closures_of is None:
            m = defaultdict(list)
            for f in self.fns.values():
                if f.parent:
                    m[f.parent].append(f)
            self._closures_of = m
        out = list(self._closures_of.get(fn.key, []))
        for gk in getattr(fn, "inlined_keys", ()) or ():      # closures written in a helper that was spliced into fn are fn's now
            out += self._closures_of.get(gk, [])
        return out

    def targets(self, t, may=True):
        """Function keys a call terminator may invoke: resolved callee, or CHA candidates."""
        k = t.get("callee")
        rk = t.get("rk")
        if k and rk not in ("virtual",):
            if k in self.fns:
                return [k]
            # a trait method resolved to its own declaration (default method or unresolved)
            if t.get("trait") and k == t.get("decl"):
                name = k.rsplit("::", 1)[-1]
                c = self.trait_impls.get((strip_generics(t["trait"]), name), [])
                return c + [k]
            return [k]
        decl = t.get("decl")
        if decl and t.get("trait"):
            name = decl.rsplit("::", 1)[-1]
            c = list(self.trait_impls.get((strip_generics(t["trait"]), name), []))
            if decl in self.fns:
                c.append(decl)
            return c if c else [decl]
        return [decl] if decl else []

    def callgraph(self):
        if self._callgraph is None:
            g = defaultdict(set)
            for f in self.fns.values():
                for b, t in f.calls():
                    for k in self.targets(t):
                        g[f.key].add(k)
                    # closures / fn items passed as arguments are reachable
                for b in f.blocks:
                    for st in b.st:
                        rv = st.get("rv")
                        if rv and rv.get("r") == "agg" and rv.get("closure"):
                            g[f.key].add(rv["closure"])
                    for op in _operands_of_block(b):
                        c = op.get("c") if op.get("k") == "const" else None
                        if c and c.get("fn"):
                            g[f.key].add(c["fn"])
                for c in self.closures_of(f):
                    g[f.key].add(c.key)
            self._callgraph = g
        return self._callgraph

    def reach(self, entries, crates=None, depth=None):
        g = self.callgraph()
        seen = {}
        work = [(e, 0) for e in entries]
        while work:
            k, d = work.pop()
            if k in seen and seen[k] <= d:
                continue
            seen[k] = d
            if depth is not None and d >= depth:
                continue
            f = self.fns.get(k)
            if f is None:
                continue
            if crates is not None and f.crate not in crates:
                continue
            for n in g.get(k, ()):
                if n not in seen:
                    work.append((n, d + 1))
        return seen


def _operands_of_block(b):
    for st in b.st:
        rv = st.get("rv")
        if not rv:
            continue
        for k in ("a", "b"):
            if k in rv and isinstance(rv[k], dict):
                yield rv[k]
        for o in rv.get("ops", ()):
            yield o
    t = b.term
    if t["t"] == "call":
        for a in t["args"]:
            yield a
        if "indirect" in t:
            yield t["indirect"]


# ------------------------------------------------------------------------------------------------
# pretty printer (for reading MIR facts while writing rules)

def fmt_place(fn, pl):
    s = "_%d" % pl["l"]
    n = fn.local_name(pl["l"])
    if n:
        s = "%s(_%d)" % (n, pl["l"])
    for e in pl["p"]:
        if e == "*":
            s = "(*%s)" % s
        elif isinstance(e, dict):
            if "f" in e:
                s = "%s.%s" % (s, e["f"])
            elif "ix" in e:
                s = "%s[_%d]" % (s, e["ix"])
            elif "cix" in e:
                s = "%s[%d]" % (s, e["cix"])
            elif "dc" in e:
                s = "(%s as %s)" % (s, e["dc"])
            elif "sub" in e:
                s = "%s[%s]" % (s, e["sub"])
        else:
            s = s + "?"
    return s


def fmt_op(fn, o):
    k = o.get("k")
    if k in ("copy", "move"):
        return ("move " if k == "move" else "") + fmt_place(fn, o["pl"])
    if k == "const":
        c = o["c"]
        if "fn" in c:
            return "fn " + c["fn"]
        if "v" in c:
            v = c["v"]
            nm = c.get("named")
            if c["ty"] == "char" and 32 <= v < 127:
                v = repr(chr(v))
            return "const %s%s: %s" % (v, (" (%s)" % nm) if nm else "", c["ty"])
        if "str" in c:
            return "const %r" % c["str"]
        if "named" in c:
            return "const %s" % c["named"]
        return "const <%s>" % c["ty"]
    return "?"


def fmt_rv(fn, rv):
    r = rv["r"]
    if r == "use":
        return fmt_op(fn, rv["a"])
    if r == "ref":
        return ("&mut " if rv["mut"] else "&") + fmt_place(fn, rv["pl"])
    if r == "rawptr":
        return "&raw " + fmt_place(fn, rv["pl"])
    if r == "cast":
        return "%s as %s (%s)" % (fmt_op(fn, rv["a"]), rv["ty"], rv["kind"])
    if r == "bin":
        return "%s(%s, %s)" % (rv["op"], fmt_op(fn, rv["a"]), fmt_op(fn, rv["b"]))
    if r == "un":
        return "%s(%s)" % (rv["op"], fmt_op(fn, rv["a"]))
    if r == "discr":
        return "discriminant(%s)" % fmt_place(fn, rv["pl"])
    if r == "agg":
        ops = ", ".join(fmt_op(fn, o) for o in rv["ops"])
        if "adt" in rv:
            return "%s::%s{%s}" % (rv["adt"], rv["variant"], ops)
        if "closure" in rv:
            return "closure %s [%s]" % (rv["closure"], ops)
        return "(%s)" % ops
    if r == "repeat":
        return "[%s; _]" % fmt_op(fn, rv["a"])
    return rv.get("dbg", "?")


def show(fn, out=None):
    import sys
    out = out or sys.stdout
    out.write("fn %s  @ %s  argc=%d\n" % (fn.key, fn.loc(), fn.argc))
    for i, t in enumerate(fn.locals):
        n = fn.local_name(i)
        out.write("  let _%d: %s%s\n" % (i, t, ("  // " + n) if n else ""))
    for b in fn.blocks:
        out.write(" bb%d%s:\n" % (b.idx, " (cleanup)" if b.cleanup else ""))
        for st in b.st:
            if st["s"] == "=":
                out.write("    %s = %s    // :%d\n" % (fmt_place(fn, st["lhs"]), fmt_rv(fn, st["rv"]), st["sp"][1]))
            else:
                out.write("    setdiscr %s = %s\n" % (fmt_place(fn, st["lhs"]), st["v"]))
        t = b.term
        k = t["t"]
        if k == "call":
            cal = callee_key(t) or ("indirect " + fmt_op(fn, t["indirect"]))
            out.write("    %s = %s(%s) -> %s    // :%d [%s] ga=%s\n" % (
                fmt_place(fn, t["dest"]), cal, ", ".join(fmt_op(fn, a) for a in t["args"]),
                ("bb%d" % t["to"]) if t["to"] is not None else "!", t["sp"][1], t.get("rk"), t.get("ga", "")))
        elif k == "switch":
            out.write("    switch %s -> %s, otherwise bb%d\n" % (
                fmt_op(fn, t["discr"]), ", ".join("%d:bb%d" % (v, bb) for v, bb in t["arms"]), t["otherwise"]))
        elif k == "drop":
            out.write("    drop %s : %s -> bb%d   // :%d\n" % (fmt_place(fn, t["pl"]), t["ty"], t["to"], t["sp"][1]))
        elif k == "assert":
            out.write("    assert %s == %s (%s) -> bb%d\n" % (fmt_op(fn, t["cond"]), t["expected"], t["msg"], t["to"]))
        elif k == "goto":
            out.write("    goto bb%d\n" % t["to"])
        else:
            out.write("    %s\n" % k)
