"""Inline view of a function: the bodies of *single-use private helpers* spliced in at their call site.

Why: rules are anchored at the function that performs a protocol (KeyValueStore::write, Version::load, ..).  Moving a few of its
statements into a fresh private helper is the commonest behaviour-preserving edit, and it makes every rule that looks for those
statements "in the anchor" report a missing construct.  A helper that was extracted that way has exactly one call site, is private, is
not a trait method and lives in the anchor's crate; seen through this view it is as if the edit had not been made.

What is spliced (call site `dest = g(args) -> bb_to` in block B of f):
  * g's locals are appended to f's (offset `off`), with their debug names;
  * B gets the statements  `off+i = use(arg_i)`  and a goto to the copy of g's entry block;
  * g's blocks are copied with locals and block indices renumbered;
  * each `return` of g becomes  `dest = use(move off+0)` ; goto bb_to.
Spans are kept, so reports still point at the helper's source lines.  Nothing else is rewritten: calls that remain are the original
terminators.  The view is only ever built on request (Ctx.fn(.., inline=True)); a rule that names a helper keeps it out with `keep`.
"""
import copy
import re

from .facts import Fn


def _call_sites(prog):
    """callee key -> number of call sites in the whole program that resolve to it (any resolution, may-targets included)."""
    idx = getattr(prog, "_inline_sites", None)
    if not idx:
        idx = {}
        for f in prog.fns.values():
            for _b, t in f.calls():
                for k in prog.targets(t):
                    idx[k] = idx.get(k, 0) + 1
            # a function whose address is taken (passed as a value) is not single-use either
            for b in f.blocks:
                for st in b.st:
                    if st["s"] == "=":
                        for o in _operands(st["rv"]):
                            c = o.get("c") if o.get("k") == "const" else None
                            if c and c.get("fn"):
                                idx[c["fn"]] = idx.get(c["fn"], 0) + 2
        prog._inline_sites = idx
    return idx


def _operands(rv):
    out = []
    for k in ("a", "b"):
        if isinstance(rv.get(k), dict):
            out.append(rv[k])
    for o in rv.get("ops", []) or []:
        if isinstance(o, dict):
            out.append(o)
    return out


_KNOWN = None


def known_fns():
    """The frozen table of functions that existed when the rules were written (rules/known_fns.txt); None when it is missing, in which
    case nothing is ever spliced."""
    global _KNOWN
    if _KNOWN is None:
        import os
        p = os.path.join(os.path.dirname(os.path.dirname(os.path.dirname(os.path.abspath(__file__)))), "rules", "known_fns.txt")
        _KNOWN = frozenset(l.strip() for l in open(p)) if os.path.exists(p) else False
    return _KNOWN or None


def candidates(prog, f, keep=None):
    """[(block index, callee Fn)] of the call sites of f that the view would splice."""
    known = known_fns()
    if known is None:
        return []
    sites = _call_sites(prog)
    rx = re.compile(keep) if keep else None
    out = []
    for b, t in f.calls():
        if t.get("rk") == "virtual" or t.get("to") is None:
            continue
        ks = prog.targets(t)
        if len(ks) != 1:
            continue
        g = prog.fns.get(ks[0])
        if g is None or g is f or g.crate != f.crate or not g.blocks:
            continue
        if g.pub or g.impl_trait or "{closure" in g.key or g.kind not in ("Fn", "AssocFn"):
            continue
        if g.skey in known:
            continue            # it was there when the rules were written: rules may name it, and nothing changes on that tree
        if sites.get(g.key, 0) != 1:
            continue
        if rx is not None and rx.search(g.skey):
            continue
        if len(t["args"]) != g.argc:
            continue
        if g.locals[0].startswith(("core::result::Result<", "core::option::Option<core::result::Result<")) and not _question_mark(f, t):
            continue            # its error returns would merge into paths that carry on: only `helper(..)?` is looked through
        # a helper that calls back into f, or itself, stays a call
        if any(k in (f.key, g.key) for _b2, t2 in g.calls() for k in prog.targets(t2)):
            continue
        out.append((b.idx, g))
    return out


def _question_mark(f, t):
    """The call's result is consumed by `?` at once: the continuation block is `Try::branch(move dest)` and nothing else reads dest."""
    if t.get("to") is None or t["dest"]["p"]:
        return False
    nb = f.blocks[t["to"]]
    nt = nb.term
    if nt["t"] != "call" or not re.search(r"Try>?::branch$", nt.get("callee") or nt.get("decl") or ""):
        return False
    if any(st["s"] == "=" for st in nb.st):
        return False
    a = nt["args"][0] if nt["args"] else {}
    if a.get("k") != "move" or a["pl"]["l"] != t["dest"]["l"] or a["pl"]["p"]:
        return False
    d = t["dest"]["l"]
    uses = 0
    for b in f.blocks:
        for st in b.st:
            if st["s"] == "=" and d in _locals_read(st["rv"]):
                uses += 1
        bt = b.term
        if bt is not nt and d in _locals_read(bt):
            uses += 1
    return uses == 0


def _locals_read(node, out=None):
    out = set() if out is None else out
    if isinstance(node, dict):
        if "l" in node and "p" in node and isinstance(node["l"], int):
            out.add(node["l"])
            for e in node["p"]:
                if isinstance(e, dict) and isinstance(e.get("ix"), int):
                    out.add(e["ix"])
            return out
        for k, v in node.items():
            if k == "dest":
                continue
            _locals_read(v, out)
    elif isinstance(node, list):
        for v in node:
            _locals_read(v, out)
    return out


def _remap_place(pl, off):
    pl["l"] += off
    for e in pl.get("p", []):
        if isinstance(e, dict) and isinstance(e.get("ix"), int):
            e["ix"] += off          # Index(local) projection
    return pl


def _walk(node, off):
    """Renumber every place inside a statement / terminator copied from the callee."""
    if isinstance(node, dict):
        if "l" in node and "p" in node and isinstance(node["l"], int):
            _remap_place(node, off)
            return
        for v in node.values():
            _walk(v, off)
    elif isinstance(node, list):
        for v in node:
            _walk(v, off)


def _remap_succs(t, base):
    k = t["t"]
    if k == "goto":
        t["to"] += base
    elif k == "switch":
        t["arms"] = [[v, b + base] for v, b in t["arms"]]
        t["otherwise"] += base
    elif k in ("drop", "assert"):
        t["to"] += base
    elif k == "call":
        if t["to"] is not None:
            t["to"] += base


def view(prog, f, keep=None, depth=2):
    """f with its single-use private helpers spliced in (to `depth` levels).  Returns f itself when there is nothing to splice."""
    cache = getattr(prog, "_inline_views", None)
    if cache is None:
        cache = prog._inline_views = {}
    ck = (f.key, keep, depth)
    if ck in cache:
        return cache[ck]
    cur = f
    spliced = []
    spliced_keys = []
    for _round in range(depth):
        cands = candidates(prog, cur, keep)
        if not cands:
            break
        d = {"key": cur.key, "kind": cur.kind, "sp": cur.sp, "argc": cur.argc, "locals": list(cur.locals), "names": copy.deepcopy(cur.names),
             "parent": cur.parent, "impl_self": cur.impl_self, "impl_trait": cur.impl_trait, "name": cur.name,
             "default_of_trait": cur.default_of_trait, "pub": cur.pub,
             "blocks": [{"st": copy.deepcopy(b.st), "term": copy.deepcopy(b.term), "cleanup": b.cleanup, "tsp": b.tsp} for b in cur.blocks]}
        inl_err = list(getattr(cur, "inl_err", ()))
        for bidx, g in cands:
            blk = d["blocks"][bidx]
            t = blk["term"]
            off = len(d["locals"])
            base = len(d["blocks"])
            d["locals"].extend(g.locals)
            for n, pl in g.names:
                npl = copy.deepcopy(pl)
                _remap_place(npl, off)
                d["names"].append([n, npl])
            sp = t.get("sp") or blk["tsp"]
            for i, a in enumerate(t["args"]):
                blk["st"].append({"s": "=", "lhs": {"l": off + 1 + i, "p": []}, "rv": {"r": "use", "a": copy.deepcopy(a)}, "sp": sp, "inl": g.key})
            dest, to = t["dest"], t["to"]
            blk["term"] = {"t": "goto", "to": base, "sp": sp}
            if g.locals[0].startswith(("core::result::Result<", "core::option::Option<core::result::Result<")):
                from . import prim as P
                for (eb, ei) in P.error_points(g):
                    inl_err.append((base + eb, ei))
            for gb in g.blocks:
                st = copy.deepcopy(gb.st)
                tm = copy.deepcopy(gb.term)
                _walk(st, off)
                _walk(tm, off)
                _remap_succs(tm, base)
                nb = {"st": st, "term": tm, "cleanup": gb.cleanup, "tsp": gb.tsp}
                if tm["t"] == "return":
                    nb["st"].append({"s": "=", "lhs": copy.deepcopy(dest), "rv": {"r": "use", "a": {"k": "move", "pl": {"l": off, "p": []}}},
                                     "sp": gb.tsp, "inl": g.key})
                    nb["term"] = {"t": "goto", "to": to, "sp": gb.tsp}
                d["blocks"].append(nb)
            spliced.append(g.skey)
            spliced_keys.append(g.key)
        nf = Fn(d, cur.crate)
        nf.inlined = list(spliced)
        # an error return of a spliced `helper(..)?` ends the caller too (the `?` that consumes it propagates it): reachability stops there
        nf.inl_err = inl_err
        cur = nf
    if cur is not f:
        cur.inlined = spliced
        cur.inlined_keys = spliced_keys
    cache[ck] = cur
    return cur
