"""Inline view of a function: the bodies of *new private helpers* (one or a few call sites) spliced in at their call sites.

Why: rules are anchored at the function that performs a protocol (KeyValueStore::write, Version::load, ..).  Moving a few of its
statements into a fresh private helper is the commonest behaviour-preserving edit, and it makes every rule that looks for those
statements "in the anchor" report a missing construct.  A helper that was extracted that way has exactly one call site, is private, is
not a trait method and lives in the anchor's crate; seen through this view it is as if the edit had not been made.

What is spliced (call site `dest = g(args) -> bb_to` in block B of f):
  * g's locals are appended to f's (offset `off`), with their debug names;
  * B gets the statements  `off+i = use(arg_i)`  and a goto to the copy of g's entry block;
  * g's blocks are copied with locals and block indices renumbered;
  * each `return` of g becomes  `dest = use(move off+0)` ; goto bb_to.
Spans are kept, so reports still point at the helper's source lines.  Nothing else is rewritten: calls that remain are the original
terminators.  The view is only ever built on request (Ctx.fn(.., inline=True)); a rule that names a helper keeps it out with `keep`.
"""
import copy
import os
import re

from .facts import Fn


def _call_sites(prog):
    """callee key -> number of call sites in the whole program that resolve to it (any resolution, may-targets included)."""
    idx = getattr(prog, "_inline_sites", None)
    if not idx:
        idx = {}
        for f in prog.fns.values():
            for _b, t in f.calls():
                for k in prog.targets(t):
                    idx[k] = idx.get(k, 0) + 1
            # a function whose address is taken (passed as a value) is not single-use either
            for b in f.blocks:
                for st in b.st:
                    if st["s"] == "=":
                        for o in _operands(st["rv"]):
                            c = o.get("c") if o.get("k") == "const" else None
                            if c and c.get("fn"):
                                idx[c["fn"]] = idx.get(c["fn"], 0) + 1000   # address taken: never looked through
        prog._inline_sites = idx
    return idx


def _operands(rv):
    out = []
    for k in ("a", "b"):
        if isinstance(rv.get(k), dict):
            out.append(rv[k])
    for o in rv.get("ops", []) or []:
        if isinstance(o, dict):
            out.append(o)
    return out


_KNOWN = None
MAX_SITES = 6       # a new private helper with more call sites than this stays a function of its own
MAX_BLOCKS = 400


def known_fns():
    """The frozen table of functions that existed when the rules were written (rules/known_fns.txt); None when it is missing, in which
    case nothing is ever spliced."""
    global _KNOWN
    if _KNOWN is None:
        import os
        p = os.path.join(os.path.dirname(os.path.dirname(os.path.dirname(os.path.abspath(__file__)))), "rules", "known_fns.txt")
        _KNOWN = frozenset(l.strip() for l in open(p)) if os.path.exists(p) else False
    return _KNOWN or None


def closure_parent_skey(g):
    return re.sub(r"(::\{closure#\d+\})+$", "", g.skey)


def closure_shape(g):
    """A fingerprint of a closure body that survives renumbering and moving: its calls, statement kinds and constants, in block order."""
    import hashlib
    from .facts import callee_skey
    h = hashlib.sha1()
    for b in g.blocks:
        if b.cleanup:
            continue
        for st in b.st:
            if st.get("s") == "=":
                rv = st["rv"]
                h.update(("=%s%s%s;" % (rv.get("r"), rv.get("op", ""), rv.get("variant", ""))).encode())
        t = b.term
        h.update((t["t"] + ":" + (callee_skey(t) or "") + "|").encode() if t["t"] == "call" else (t["t"] + "|").encode())
    return h.hexdigest()[:16]


_KNOWN_CL = None


def known_closures():
    global _KNOWN_CL
    if _KNOWN_CL is None:
        import os
        p = os.path.join(os.path.dirname(os.path.dirname(os.path.dirname(os.path.abspath(__file__)))), "rules", "known_closures.txt")
        _KNOWN_CL = frozenset(l.rstrip("\n") for l in open(p)) if os.path.exists(p) else False
    return _KNOWN_CL or None


def _moved(prog, g, known):
    """g is not in the table, but exactly one function of the table in g's crate has g's name and that function no longer exists: g is
    that function, moved."""
    idx = getattr(prog, "_known_names", None)
    if idx is None:
        idx = {}
        for k in known:
            if k.startswith("<"):
                continue
            crate = k.split("::", 1)[0]
            idx.setdefault((crate, k.rsplit("::", 1)[-1]), []).append(k)
        prog._known_names = idx
    if g.skey.startswith("<"):
        return False
    c = idx.get((g.crate, g.skey.rsplit("::", 1)[-1]), [])
    if len(c) == 1 and not prog.by_skey.get(c[0]):
        return True
    # renamed in place: in g's own impl / module exactly one function of the table has vanished and g is the only new function there
    ren = getattr(prog, "_renamed_in_place", None)
    if ren is None:
        ren = {}
        by_prefix_known, by_prefix_new = {}, {}
        for k in known:
            if not k.startswith("<") and "::" in k:
                by_prefix_known.setdefault(k.rsplit("::", 1)[0], []).append(k)
        for h in prog.fns.values():
            if "{closure" in h.key or h.skey.startswith("<") or "::" not in h.skey or h.skey in known:
                continue
            by_prefix_new.setdefault(h.skey.rsplit("::", 1)[0], []).append(h.skey)
        for pre, news in by_prefix_new.items():
            gone = [k for k in by_prefix_known.get(pre, []) if not prog.by_skey.get(k)]
            if len(set(news)) == 1 and len(gone) == 1:
                ren[news[0]] = gone[0]
        prog._renamed_in_place = ren
    return g.skey in ren


def candidates(prog, f, keep=None):
    """[(block index, callee Fn)] of the call sites of f that the view would splice."""
    known = known_fns()
    if known is None:
        return []
    sites = _call_sites(prog)
    rx = re.compile(keep) if keep else None
    out = []
    for b, t in f.calls():
        if t.get("rk") == "virtual" or t.get("to") is None:
            continue
        ks = prog.targets(t)
        if len(ks) != 1:
            continue
        g = prog.fns.get(ks[0])
        if g is None or g is f or g.crate != f.crate or not g.blocks:
            continue
        if g.pub or g.impl_trait or "{closure" in g.key or g.kind not in ("Fn", "AssocFn"):
            continue
        if g.skey in known:
            continue            # it was there when the rules were written: rules may name it, and nothing changes on that tree
        if _moved(prog, g, known):
            continue            # a known function under a new path (a nested fn hoisted, moved to another impl): rules find it by name
        if not 1 <= sites.get(g.key, 0) <= MAX_SITES or len(g.blocks) > MAX_BLOCKS:
            continue            # a few call sites (a block shared by siblings was pulled out), each gets its own copy
        if rx is not None and rx.search(g.skey):
            continue
        if len(t["args"]) != g.argc:
            continue
        # (a fallible helper whose result is neither `?`-ed nor returned is looked through as well -- its error returns then simply flow on
        #  into the caller as values; jump threading keeps a following `match` honest -- see the splice loop for the other two cases)
        # a helper that calls back into f, or itself, stays a call
        if any(k in (f.key, g.key) for _b2, t2 in g.calls() for k in prog.targets(t2)):
            continue
        out.append((b.idx, g))
    return out


def _question_mark(f, t):
    """The call's result is consumed by `?` at once: the continuation block is `Try::branch(move dest)` and nothing else reads dest."""
    if t.get("to") is None or t["dest"]["p"]:
        return False
    nb = f.blocks[t["to"]]
    nt = nb.term
    if nt["t"] != "call" or not re.search(r"Try>?::branch$", nt.get("callee") or nt.get("decl") or ""):
        return False
    if any(st["s"] == "=" for st in nb.st):
        return False
    a = nt["args"][0] if nt["args"] else {}
    if a.get("k") != "move" or a["pl"]["l"] != t["dest"]["l"] or a["pl"]["p"]:
        return False
    d = t["dest"]["l"]
    uses = 0
    for b in f.blocks:
        for st in b.st:
            if st["s"] == "=" and d in _locals_read(st["rv"]):
                uses += 1
        bt = b.term
        if bt is not nt and d in _locals_read(bt):
            uses += 1
    return uses == 0


def _tail_result(f, t):
    """The call's result is the caller's own result: dest is _0, or the continuation moves it into _0 (through drops / gotos only) and returns."""
    if t.get("to") is None or t["dest"]["p"]:
        return False
    d = t["dest"]["l"]
    cur = t["to"]
    moved = d == 0
    for _ in range(10):
        b = f.blocks[cur]
        for st in b.st:
            if st["s"] != "=":
                continue
            if not moved and st["lhs"]["l"] == 0 and not st["lhs"]["p"] and st["rv"].get("r") == "use" and st["rv"]["a"].get("k") == "move" and \
                    st["rv"]["a"]["pl"]["l"] == d and not st["rv"]["a"]["pl"]["p"]:
                moved = True
            else:
                return False
        tt = b.term
        if tt["t"] == "return":
            return moved
        if tt["t"] not in ("goto", "drop"):
            return False
        cur = tt["to"]
    return False


def _locals_read(node, out=None):
    out = set() if out is None else out
    if isinstance(node, dict):
        if "l" in node and "p" in node and isinstance(node["l"], int):
            out.add(node["l"])
            for e in node["p"]:
                if isinstance(e, dict) and isinstance(e.get("ix"), int):
                    out.add(e["ix"])
            return out
        for k, v in node.items():
            if k == "dest":
                continue
            _locals_read(v, out)
    elif isinstance(node, list):
        for v in node:
            _locals_read(v, out)
    return out


def _remap_place(pl, off):
    pl["l"] += off
    for e in pl.get("p", []):
        if isinstance(e, dict) and isinstance(e.get("ix"), int):
            e["ix"] += off          # Index(local) projection
    return pl


def _walk(node, off):
    """Renumber every place inside a statement / terminator copied from the callee."""
    if isinstance(node, dict):
        if "l" in node and "p" in node and isinstance(node["l"], int):
            _remap_place(node, off)
            return
        for v in node.values():
            _walk(v, off)
    elif isinstance(node, list):
        for v in node:
            _walk(v, off)


def _remap_succs(t, base):
    k = t["t"]
    if k == "goto":
        t["to"] += base
    elif k == "switch":
        t["arms"] = [[v, b + base] for v, b in t["arms"]]
        t["otherwise"] += base
    elif k in ("drop", "assert"):
        t["to"] += base
    elif k == "call":
        if t["to"] is not None:
            t["to"] += base



# ------------------------------------------------------------------------------------------------
# Combinator lowering: `x.and_then(|v| body)` seen as `match x { Ok(v) => body, Err(e) => Err(e) }`
#
# on:     the variant of x for which the closure runs          arg:    what the closure is handed (value / ref / none)
# res:    what the call evaluates to on that arm: "raw" (the closure's result), ("wrap", adt, variant), or "self" (x itself)
# other:  the other arm: ("wrap", adt, variant) of x's payload, ("unit", adt, variant), "payload", or "self"
R_, O_ = "core::result::Result", "core::option::Option"
COMBINATORS = {
    R_ + "::and_then": dict(adt=R_, on="Ok", arg="value", res="raw", other=("wrap", R_, "Err")),
    R_ + "::map": dict(adt=R_, on="Ok", arg="value", res=("wrap", R_, "Ok"), other=("wrap", R_, "Err")),
    R_ + "::map_err": dict(adt=R_, on="Err", arg="value", res=("wrap", R_, "Err"), other=("wrap", R_, "Ok")),
    R_ + "::or_else": dict(adt=R_, on="Err", arg="value", res="raw", other=("wrap", R_, "Ok")),
    R_ + "::inspect_err": dict(adt=R_, on="Err", arg="ref", res="self", other="self"),
    R_ + "::inspect": dict(adt=R_, on="Ok", arg="ref", res="self", other="self"),
    R_ + "::unwrap_or_else": dict(adt=R_, on="Err", arg="value", res="raw", other="payload"),
    O_ + "::map": dict(adt=O_, on="Some", arg="value", res=("wrap", O_, "Some"), other=("unit", O_, "None")),
    O_ + "::and_then": dict(adt=O_, on="Some", arg="value", res="raw", other=("unit", O_, "None")),
    O_ + "::ok_or_else": dict(adt=O_, on="None", arg="none", res=("wrap", R_, "Err"), other=("wrap", R_, "Ok")),
    O_ + "::unwrap_or_else": dict(adt=O_, on="None", arg="none", res="raw", other="payload"),
    O_ + "::or_else": dict(adt=O_, on="None", arg="none", res="raw", other=("wrap", O_, "Some")),
    O_ + "::inspect": dict(adt=O_, on="Some", arg="ref", res="self", other="self"),
    O_ + "::is_some_and": dict(adt=O_, on="Some", arg="value", res="raw", other=("const", "bool", 0)),
    O_ + "::is_none_or": dict(adt=O_, on="Some", arg="value", res="raw", other=("const", "bool", 1)),
    R_ + "::is_ok_and": dict(adt=R_, on="Ok", arg="value", res="raw", other=("const", "bool", 0)),
    O_ + "::map_or": dict(adt=O_, on="Some", arg="value", res="raw", other=("operand", 1), carg=2),
    R_ + "::map_or": dict(adt=R_, on="Ok", arg="value", res="raw", other=("operand", 1), carg=2),
    "core::bool::then": dict(adt="bool", on="true", arg="none", res=("wrap", O_, "Some"), other=("unit", O_, "None")),
}
VARIANTS = {R_: ("Ok", "Err"), O_: ("None", "Some"), "bool": ("false", "true")}


def _single_def(f, l):
    out = []
    for b in f.blocks:
        for st in b.st:
            if st.get("s") == "=" and st["lhs"]["l"] == l and not st["lhs"]["p"]:
                out.append(st)
        t = b.term
        if t["t"] == "call" and t["dest"]["l"] == l:
            out.append(t)
    return out[0] if len(out) == 1 else None


def _type_args(ty):
    """top-level generic arguments of `path<A, B>`"""
    i = ty.find("<")
    if i < 0 or not ty.endswith(">"):
        return []
    out, depth, cur = [], 0, ""
    for ch in ty[i + 1:-1]:
        if ch in "<([":
            depth += 1
        elif ch in ">)]":
            depth -= 1
        if ch == "," and depth == 0:
            out.append(cur.strip())
            cur = ""
        else:
            cur += ch
    if cur.strip():
        out.append(cur.strip())
    return out


def _closure_behind(f, op, depth=0):
    """(defining statement, local) of the closure aggregate an operand is a (moved) copy of, following single definitions"""
    if op.get("k") not in ("move", "copy") or op["pl"]["p"] or depth > 6:
        return None
    d = _single_def(f, op["pl"]["l"])
    if d is None or d.get("s") != "=":
        return None
    if d["rv"].get("r") == "agg" and d["rv"].get("closure"):
        return d, op["pl"]["l"]
    if d["rv"].get("r") == "use":
        return _closure_behind(f, d["rv"]["a"], depth + 1)
    return None


def lower_candidates(prog, f):
    """[(block index, spec, closure Fn, closure local)] for the combinator calls of f whose closure is new (not in known_closures.txt)."""
    from .facts import callee_skey
    known = known_closures()
    if known is None:
        return []
    out = []
    for b, t in f.calls():
        ck_ = callee_skey(t) or t.get("decl") or ""
        if re.search(r"(FnOnce>?::call_once|FnMut>?::call_mut|Fn>?::call)$", ck_) and t.get("to") is not None and len(t["args"]) == 2:
            # `f(a, b)` where f is a closure built in this function (typically handed to a helper that was looked through)
            c = t["args"][0]
            cl = _closure_behind(f, c)
            if cl is not None:
                d_, cloc = cl
                g = prog.fns.get(d_["rv"]["closure"])
                if g is None:
                    cands = [h for h in prog.fns.values() if h.skey == d_["rv"]["closure"] or h.key == d_["rv"]["closure"]]
                    g = cands[0] if len(cands) == 1 else None
                if g is not None and g.blocks and len(g.blocks) <= MAX_BLOCKS and "%s\t%s" % (closure_parent_skey(g), closure_shape(g)) not in known:
                    out.append((b.idx, {"kind": "call"}, g, cloc))
            continue
        spec = COMBINATORS.get(callee_skey(t) or "")
        if not spec or t.get("to") is None or len(t["args"]) != spec.get("carg", 1) + 1:
            continue
        x, c = t["args"][0], t["args"][spec.get("carg", 1)]
        if x.get("k") != "move" or x["pl"]["p"] or c.get("k") != "move" or c["pl"]["p"]:
            continue
        if not (f.locals[x["pl"]["l"]].startswith(spec["adt"] + "<") or (spec["adt"] == "bool" and f.locals[x["pl"]["l"]] == "bool")):
            continue
        d = _single_def(f, c["pl"]["l"])
        if d is None or d.get("s") != "=" or d["rv"].get("r") != "agg" or not d["rv"].get("closure"):
            continue
        g = prog.fns.get(d["rv"]["closure"])
        if g is None:
            cands = [h for h in prog.fns.values() if h.skey == d["rv"]["closure"] or h.key == d["rv"]["closure"]]
            g = cands[0] if len(cands) == 1 else None
        if g is None or not g.blocks or len(g.blocks) > MAX_BLOCKS:
            continue
        if "%s\t%s" % (closure_parent_skey(g), closure_shape(g)) in known:
            continue            # it was there when the rules were written
        want = {"value": 2, "ref": 2, "none": 1}[spec["arg"]]
        if g.argc != want:
            continue
        out.append((b.idx, spec, g, c["pl"]["l"]))
    return out


def _lower_call(d, bidx, g, t, sp):
    """`dest = call_once(move c, move (a, b)) -> to` with c a closure of this function: the closure body in place of the call."""
    blk = d["blocks"][bidx]
    dest, to = t["dest"], t["to"]
    off = len(d["locals"])
    base = len(d["blocks"])
    d["locals"].extend(g.locals)
    for n, pl in g.names:
        npl = copy.deepcopy(pl)
        _remap_place(npl, off)
        d["names"].append([n, npl])

    def stmt(lhs, rv):
        return {"s": "=", "lhs": lhs, "rv": rv, "sp": sp, "inl": g.key}
    c = t["args"][0]
    env_ty = g.locals[1]
    if env_ty.startswith("&"):
        blk["st"].append(stmt({"l": off + 1, "p": []}, {"r": "ref", "mut": "mut" in env_ty[:8], "pl": copy.deepcopy(c["pl"])}))
    else:
        blk["st"].append(stmt({"l": off + 1, "p": []}, {"r": "use", "a": copy.deepcopy(c)}))
    tup = t["args"][1]
    for i in range(g.argc - 1):
        if tup.get("k") in ("move", "copy"):
            src = {"k": "move", "pl": {"l": tup["pl"]["l"], "p": list(tup["pl"]["p"]) + [{"f": str(i), "of": "()", "ty": g.locals[2 + i]}]}}
            blk["st"].append(stmt({"l": off + 2 + i, "p": []}, {"r": "use", "a": src}))
    blk["term"] = {"t": "goto", "to": base, "sp": sp}
    for gb in g.blocks:
        st = copy.deepcopy(gb.st)
        tm = copy.deepcopy(gb.term)
        _walk(st, off)
        _walk(tm, off)
        _remap_succs(tm, base)
        nb = {"st": st, "term": tm, "cleanup": gb.cleanup, "tsp": gb.tsp}
        if tm["t"] == "return":
            nb["st"].append(stmt(copy.deepcopy(dest), {"r": "use", "a": {"k": "move", "pl": {"l": off, "p": []}}}))
            nb["term"] = {"t": "goto", "to": to, "sp": gb.tsp}
        d["blocks"].append(nb)


def _lower(d, bidx, spec, g, cl, f_locals):
    """Rewrite block bidx of the function dict d: the combinator call becomes a test of x's variant with the closure body on one arm."""
    blk = d["blocks"][bidx]
    t = blk["term"]
    sp = t.get("sp") or blk["tsp"]
    if spec.get("kind") == "call":
        return _lower_call(d, bidx, g, t, sp)
    x = t["args"][0]["pl"]
    dest, to = t["dest"], t["to"]
    adt = spec["adt"]
    xty = d["locals"][x["l"]]
    targs = _type_args(xty)
    vidx = {v: i for i, v in enumerate(VARIANTS[adt])}
    payload_ty = {"Ok": targs[0] if targs else "", "Err": targs[1] if len(targs) > 1 else "", "Some": targs[0] if targs else "", "None": "", "true": "", "false": ""}
    on = spec["on"]
    oth = [v for v in VARIANTS[adt] if v != on][0]

    def payload(variant):
        return {"l": x["l"], "p": [{"dc": variant}, {"f": "0", "of": "%s::%s" % (adt, variant), "ty": payload_ty[variant]}]}

    def new_local(ty):
        d["locals"].append(ty)
        return len(d["locals"]) - 1

    def stmt(lhs, rv):
        return {"s": "=", "lhs": lhs, "rv": rv, "sp": sp, "inl": g.key}

    def agg(a, variant, ops):
        return {"r": "agg", "adt": a, "variant": variant, "fields": ["0"] if ops else [], "ops": ops}
    def rewrap(variant):
        """x itself, on an arm where its variant is known: written as that variant of its payload, so that what follows sees which it is"""
        if adt == "bool" or variant == "None":
            return agg(adt, variant, []) if adt != "bool" else {"r": "use", "a": {"k": "const", "c": {"ty": "bool", "v": 1 if variant == "true" else 0}}}
        return agg(adt, variant, [{"k": "move", "pl": payload(variant)}])
    dl = new_local("isize")
    off = len(d["locals"])
    base = len(d["blocks"])
    d["locals"].extend(g.locals)
    for n, pl in g.names:
        npl = copy.deepcopy(pl)
        _remap_place(npl, off)
        d["names"].append([n, npl])
    b_on, b_oth = base + len(g.blocks), base + len(g.blocks) + 1
    if adt == "bool":
        blk["term"] = {"t": "switch", "discr": {"k": "move", "pl": {"l": x["l"], "p": []}}, "arms": [[0, b_oth]], "otherwise": b_on, "sp": sp}
    else:
        blk["st"].append(stmt({"l": dl, "p": []}, {"r": "discr", "pl": {"l": x["l"], "p": []}}))
        blk["term"] = {"t": "switch", "discr": {"k": "move", "pl": {"l": dl, "p": []}}, "arms": [[vidx[on], b_on]], "otherwise": b_oth, "sp": sp}
    # the closure body
    inl_err = []
    for gb in g.blocks:
        st = copy.deepcopy(gb.st)
        tm = copy.deepcopy(gb.term)
        _walk(st, off)
        _walk(tm, off)
        _remap_succs(tm, base)
        nb = {"st": st, "term": tm, "cleanup": gb.cleanup, "tsp": gb.tsp}
        if tm["t"] == "return":
            r = {"k": "move", "pl": {"l": off, "p": []}}
            if spec["res"] == "raw":
                nb["st"].append(stmt(copy.deepcopy(dest), {"r": "use", "a": r}))
            elif spec["res"] == "self":
                nb["st"].append(stmt(copy.deepcopy(dest), rewrap(on)))
            else:
                nb["st"].append(stmt(copy.deepcopy(dest), agg(spec["res"][1], spec["res"][2], [r])))
            nb["term"] = {"t": "goto", "to": to, "sp": gb.tsp}
        d["blocks"].append(nb)
    # the arm that runs the closure: bind its environment and its argument, enter the body
    env_ty = g.locals[1]
    st_on = []
    if env_ty.startswith("&"):
        st_on.append(stmt({"l": off + 1, "p": []}, {"r": "ref", "mut": env_ty.startswith("&mut") or "mut " in env_ty[:12], "pl": {"l": cl, "p": []}}))
    else:
        st_on.append(stmt({"l": off + 1, "p": []}, {"r": "use", "a": {"k": "move", "pl": {"l": cl, "p": []}}}))
    if spec["arg"] == "value":
        st_on.append(stmt({"l": off + 2, "p": []}, {"r": "use", "a": {"k": "move", "pl": payload(on)}}))
    elif spec["arg"] == "ref":
        st_on.append(stmt({"l": off + 2, "p": []}, {"r": "ref", "mut": False, "pl": payload(on)}))
    d["blocks"].append({"st": st_on, "term": {"t": "goto", "to": base, "sp": sp}, "cleanup": False, "tsp": sp})
    # the other arm
    o = spec["other"]
    if o == "self":
        st_o = [stmt(copy.deepcopy(dest), rewrap(oth))]
    elif o == "payload":
        st_o = [stmt(copy.deepcopy(dest), {"r": "use", "a": {"k": "move", "pl": payload(oth)}})]
    elif o[0] == "operand":
        st_o = [stmt(copy.deepcopy(dest), {"r": "use", "a": copy.deepcopy(t["args"][o[1]])})]
    elif o[0] == "const":
        st_o = [stmt(copy.deepcopy(dest), {"r": "use", "a": {"k": "const", "c": {"ty": o[1], "v": o[2]}}})]
    elif o[0] == "unit":
        st_o = [stmt(copy.deepcopy(dest), agg(o[1], o[2], []))]
    else:
        st_o = [stmt(copy.deepcopy(dest), agg(o[1], o[2], [{"k": "move", "pl": payload(oth)}]))]
    d["blocks"].append({"st": st_o, "term": {"t": "goto", "to": to, "sp": sp}, "cleanup": False, "tsp": sp})


_VARIANT_DISCR = {("core::option::Option", "None"): 0, ("core::option::Option", "Some"): 1,
                  ("core::result::Result", "Ok"): 0, ("core::result::Result", "Err"): 1}


def _known_value(st, r):
    """The statement assigns a statically known value to the whole of local r: ('int', v) for a bool/integer constant, ('variant', d) for
    an Option / Result aggregate (its discriminant)."""
    if st.get("s") != "=" or st["lhs"]["l"] != r or st["lhs"]["p"]:
        return None
    rv = st["rv"]
    if rv.get("r") == "use" and rv["a"].get("k") == "const" and isinstance(rv["a"]["c"].get("v"), int):
        return ("int", rv["a"]["c"]["v"])
    if rv.get("r") == "agg" and (rv.get("adt"), rv.get("variant")) in _VARIANT_DISCR:
        return ("variant", _VARIANT_DISCR[(rv.get("adt"), rv.get("variant"))], rv.get("adt"))
    return None


def _switch_target(tblk, dest, known):
    """tblk tests `dest` (switch on it, or on its discriminant computed in the block): the successor taken for the known value."""
    t = tblk["term"]
    if t["t"] != "switch" or t["discr"].get("k") not in ("copy", "move") or t["discr"]["pl"]["p"]:
        return None
    dl = t["discr"]["pl"]["l"]
    sts = [x for x in tblk["st"] if x.get("s") == "="]
    if known[0] == "int":
        if sts or dl != dest["l"] or dest["p"]:
            return None
    else:
        if len(sts) != 1 or sts[0]["lhs"]["l"] != dl or sts[0]["lhs"]["p"] or sts[0]["rv"].get("r") != "discr":
            return None
        pl = sts[0]["rv"]["pl"]
        if pl["l"] != dest["l"] or pl["p"] != dest["p"]:
            return None
    for v, b in t["arms"]:
        if v == known[1]:
            return b
    return t["otherwise"]


def _thread_known_returns(d, lo, hi, off, dest, to):
    """Jump threading across a splice: a path of the helper that returns a known constant (`true`, `None`, `Err(..)`) and is tested by the
    caller right after the call continues at the arm that matches, not at both.  Without this the caller's `if helper(..) { A } else { B }`
    would let the helper's `false` paths reach A.  The blocks between the assignment and the return (drops) are copied for that path."""
    if to is None or to >= len(d["blocks"]):
        return
    r = off
    rets = {}
    for i in range(lo, hi):
        b = d["blocks"][i]
        if b["term"]["t"] == "goto" and b["term"]["to"] == to and b["st"] and b["st"][-1].get("inl") and \
                b["st"][-1].get("rv", {}).get("r") == "use" and b["st"][-1]["rv"]["a"].get("pl", {}).get("l") == r:
            rets[i] = b
    if not rets:
        return
    for i in range(lo, hi):
        a = d["blocks"][i]
        known = None
        for st in a["st"]:
            if st.get("s") == "=" and st["lhs"]["l"] == r:
                known = _known_value(st, r)
        if known is None:
            continue
        target = _switch_target(d["blocks"][to], dest, known)
        if target is None:
            continue
        if i in rets:
            # a is itself the converted return block: every path through it carries the known value
            a["st"] = a["st"] + copy.deepcopy(d["blocks"][to]["st"])
            a["term"] = {"t": "goto", "to": target, "sp": a["term"].get("sp")}
            continue
        if a["term"]["t"] not in ("goto", "drop"):
            continue
        # the region between a and the converted return block (drops, drop-flag tests): copied for this path
        region = []
        seen = set()
        work = [a["term"]["to"]]
        bad = False
        while work and not bad:
            c = work.pop()
            if c in seen:
                continue
            if not lo <= c < hi or len(seen) > 24:
                bad = True
                break
            blk = d["blocks"][c]
            if any(x.get("s") == "=" and x["lhs"]["l"] == r and not x.get("inl") for x in blk["st"]):
                bad = True
                break
            seen.add(c)
            region.append(c)
            if c in rets:
                continue
            tt = blk["term"]
            if tt["t"] in ("goto", "drop"):
                work.append(tt["to"])
            elif tt["t"] == "switch":
                work += [b_ for _v, b_ in tt["arms"]] + [tt["otherwise"]]
            elif tt["t"] == "call" and tt.get("to") is not None:
                work.append(tt["to"])
            elif tt["t"] in ("unreachable",):
                pass
            else:
                bad = True
        if bad or not any(c in rets for c in region):
            continue
        mapping = {}
        for c in region:
            mapping[c] = len(d["blocks"])
            d["blocks"].append(copy.deepcopy(d["blocks"][c]))
        for c in region:
            nb = d["blocks"][mapping[c]]
            if c in rets:
                nb["st"] = nb["st"] + copy.deepcopy(d["blocks"][to]["st"])
                nb["term"] = {"t": "goto", "to": target, "sp": nb["term"].get("sp")}
                continue
            tt = nb["term"]
            if tt["t"] in ("goto", "drop") or (tt["t"] == "call" and tt.get("to") is not None):
                tt["to"] = mapping.get(tt["to"], tt["to"])
            elif tt["t"] == "switch":
                tt["arms"] = [[v, mapping.get(b_, b_)] for v, b_ in tt["arms"]]
                tt["otherwise"] = mapping.get(tt["otherwise"], tt["otherwise"])
        a["term"] = dict(a["term"], to=mapping[a["term"]["to"]])


def _thread_known_gotos(d, start=0):
    """Jump threading inside one function dict: a block that ends `L = <known variant / constant>; goto T`, where T only computes and
    tests L (`d = discriminant(L); switch d`, or `switch L`), continues at the arm its value selects (through a copy of T's statements).
    Lowered combinator chains (`a.and_then(f).map(g)`) need this: the Err arm of the first must not reach the Ok arm of the second."""
    n0 = len(d["blocks"])
    for ai in range(n0):
        a = d["blocks"][ai]
        if a["term"]["t"] != "goto" or not any(x.get("inl") for x in a["st"]):
            continue
        ti = a["term"]["to"]
        if ti >= len(d["blocks"]) or ti == ai:
            continue
        tb = d["blocks"][ti]
        tt = tb["term"]
        if tt["t"] == "call" and re.search(r"Try>?::branch$", tt.get("callee") or tt.get("decl") or "") and tt.get("to") is not None and \
                len(tt["args"]) == 1 and tt["args"][0].get("k") == "move" and not tt["args"][0]["pl"]["p"] and not tt["dest"]["p"]:
            # `L = Ok(..) / Err(..); goto T;  T: c = branch(move L) -> T2;  T2: d = discriminant(c); switch d`  (the `?` operator)
            tested = tt["args"][0]["pl"]["l"]
            if any(x.get("s") == "=" and x["lhs"]["l"] == tested for x in tb["st"]):
                continue
            known = None
            for x in a["st"]:
                if x.get("s") == "=" and x["lhs"]["l"] == tested:
                    known = _known_value(x, tested)
            if known is None or known[0] != "variant":
                continue
            t2 = d["blocks"][tt["to"]]
            t2t = t2["term"]
            c = tt["dest"]["l"]
            if t2t["t"] != "switch" or t2t["discr"].get("k") not in ("copy", "move") or t2t["discr"]["pl"]["p"]:
                continue
            d2 = t2t["discr"]["pl"]["l"]
            if not any(x.get("s") == "=" and x["lhs"]["l"] == d2 and x["rv"].get("r") == "discr" and x["rv"]["pl"]["l"] == c and not x["rv"]["pl"]["p"] for x in t2["st"]):
                continue
            good = (known[2] == R_ and known[1] == 0) or (known[2] == O_ and known[1] == 1)
            cf = 0 if good else 1        # ControlFlow::Continue = 0, Break = 1
            target = None
            for v, b_ in t2t["arms"]:
                if v == cf:
                    target = b_
            if target is None:
                target = t2t["otherwise"]
            n2 = len(d["blocks"]) + 1
            d["blocks"].append({"st": copy.deepcopy(tb["st"]), "term": dict(copy.deepcopy(tt), to=n2), "cleanup": tb.get("cleanup", False), "tsp": tb.get("tsp")})
            d["blocks"].append({"st": copy.deepcopy(t2["st"]), "term": {"t": "goto", "to": target, "sp": t2t.get("sp")}, "cleanup": t2.get("cleanup", False), "tsp": t2.get("tsp")})
            a["term"] = dict(a["term"], to=n2 - 1)
            continue
        if tt["t"] != "switch" or tt["discr"].get("k") not in ("copy", "move") or tt["discr"]["pl"]["p"]:
            continue
        dl = tt["discr"]["pl"]["l"]
        tested, via_discr = dl, False
        for _hop in range(3):
            changed = False
            for x in tb["st"]:
                if x.get("s") == "=" and x["lhs"]["l"] == tested and not x["lhs"]["p"]:
                    if x["rv"].get("r") == "discr" and not x["rv"]["pl"]["p"] and not via_discr:
                        tested, via_discr, changed = x["rv"]["pl"]["l"], True, True
                    elif x["rv"].get("r") == "use" and x["rv"]["a"].get("k") in ("copy", "move") and not x["rv"]["a"]["pl"]["p"]:
                        tested, changed = x["rv"]["a"]["pl"]["l"], True      # `let flag = call(..); if flag` tests a copy
                    else:
                        tested = None
                    break
            if not changed or tested is None:
                break
        if tested is None:
            continue
        if via_discr and any(x.get("s") == "=" and x["lhs"]["l"] == tested for x in tb["st"]):
            continue            # T itself writes the value it tests
        known = None
        for x in a["st"]:
            if x.get("s") == "=" and x["lhs"]["l"] == tested:
                known = _known_value(x, tested)
        if known is None or (known[0] == "variant") != via_discr:
            continue
        target = None
        for v, b_ in tt["arms"]:
            if v == known[1]:
                target = b_
        if target is None:
            target = tt["otherwise"]
        ni = len(d["blocks"])
        d["blocks"].append({"st": copy.deepcopy(tb["st"]), "term": {"t": "goto", "to": target, "sp": tt.get("sp")}, "cleanup": tb.get("cleanup", False), "tsp": tb.get("tsp")})
        a["term"] = dict(a["term"], to=ni)


def view(prog, f, keep=None, depth=2):
    """f with its single-use private helpers spliced in (to `depth` levels).  Returns f itself when there is nothing to splice."""
    cache = getattr(prog, "_inline_views", None)
    if cache is None:
        cache = prog._inline_views = {}
    ck = (f.key, keep, depth)
    if ck in cache:
        return cache[ck]
    cur = f
    spliced = []
    spliced_keys = []
    for _round in range(depth + 1):
        cands = candidates(prog, cur, keep) if _round < depth else []
        lows = lower_candidates(prog, cur)
        from . import chains as _CH
        import sys as _sys
        chs = _CH.candidates(prog, cur, _sys.modules[__name__]) if os.environ.get("VERIF_NO_CHAINS") != "1" else []
        if not cands and not lows and not chs:
            break
        d = {"key": cur.key, "kind": cur.kind, "sp": cur.sp, "argc": cur.argc, "locals": list(cur.locals), "names": copy.deepcopy(cur.names),
             "parent": cur.parent, "impl_self": cur.impl_self, "impl_trait": cur.impl_trait, "name": cur.name,
             "default_of_trait": cur.default_of_trait, "pub": cur.pub,
             "blocks": [{"st": copy.deepcopy(b.st), "term": copy.deepcopy(b.term), "cleanup": b.cleanup, "tsp": b.tsp} for b in cur.blocks]}
        inl_err = list(getattr(cur, "inl_err", ()))
        for bidx, g in cands:
            blk = d["blocks"][bidx]
            t = blk["term"]
            off = len(d["locals"])
            base = len(d["blocks"])
            d["locals"].extend(g.locals)
            for n, pl in g.names:
                npl = copy.deepcopy(pl)
                _remap_place(npl, off)
                d["names"].append([n, npl])
            sp = t.get("sp") or blk["tsp"]
            for i, a in enumerate(t["args"]):
                blk["st"].append({"s": "=", "lhs": {"l": off + 1 + i, "p": []}, "rv": {"r": "use", "a": copy.deepcopy(a)}, "sp": sp, "inl": g.key})
            dest, to = t["dest"], t["to"]
            blk["term"] = {"t": "goto", "to": base, "sp": sp}
            if g.locals[0].startswith(("core::result::Result<", "core::option::Option<core::result::Result<")) and \
                    (_question_mark(cur, cur.blocks[bidx].term) or _tail_result(cur, cur.blocks[bidx].term)):
                # under `?` (or as the caller's own result) the helper's error returns end the caller too
                from . import prim as P
                for (eb, ei) in P.error_points(g):
                    inl_err.append((base + eb, ei))
            for gb in g.blocks:
                st = copy.deepcopy(gb.st)
                tm = copy.deepcopy(gb.term)
                _walk(st, off)
                _walk(tm, off)
                _remap_succs(tm, base)
                nb = {"st": st, "term": tm, "cleanup": gb.cleanup, "tsp": gb.tsp}
                if tm["t"] == "return":
                    nb["st"].append({"s": "=", "lhs": copy.deepcopy(dest), "rv": {"r": "use", "a": {"k": "move", "pl": {"l": off, "p": []}}},
                                     "sp": gb.tsp, "inl": g.key})
                    nb["term"] = {"t": "goto", "to": to, "sp": gb.tsp}
                d["blocks"].append(nb)
            _thread_known_returns(d, base, len(d["blocks"]), off, dest, to)
            spliced.append(g.skey)
            spliced_keys.append(g.key)
        done_blocks = {bidx for bidx, _g in cands}
        for bidx, spec, g, cl in lows:
            if bidx in done_blocks:
                continue
            _lower(d, bidx, spec, g, cl, cur.locals)
            spliced.append(g.skey)
            spliced_keys.append(g.key)
        done_blocks |= {bidx for bidx, _s, _g, _c in lows}
        chs = [c_ for c_ in chs if c_[0] not in done_blocks]
        if chs:
            for g in _CH.lower(prog, cur, d, chs, _sys.modules[__name__]):
                spliced.append(g.skey)
                spliced_keys.append(g.key)
        _thread_known_gotos(d)
        nf = Fn(d, cur.crate)
        nf.inlined = list(spliced)
        # an error return of a spliced `helper(..)?` ends the caller too (the `?` that consumes it propagates it): reachability stops there
        nf.inl_err = inl_err
        cur = nf
    if cur is not f:
        cur.inlined = spliced
        cur.inlined_keys = spliced_keys
    cache[ck] = cur
    return cur
