"""Analysis primitives over the extracted MIR: points, reachability, dominance-style queries,
error/success exits, value origin (backward slice), held-lock dataflow, field writes."""
import re
from collections import defaultdict, deque

from .facts import callee_key, callee_skey, strip_generics, relpath

# A *point* is (block index, statement index); the terminator of block b is (b, len(b.st)).


def term_pt(fn, bb):
    return (bb, len(fn.blocks[bb].st))


def pt_line(fn, pt):
    b = fn.blocks[pt[0]]
    if pt[1] < len(b.st):
        sp = b.st[pt[1]].get("sp")
        return sp[1] if sp else b.tsp[1]
    t = b.term
    sp = t.get("sp") or b.tsp
    return sp[1]


def pt_loc(fn, pt):
    b = fn.blocks[pt[0]]
    sp = None
    if pt[1] < len(b.st):
        sp = b.st[pt[1]].get("sp")
    else:
        sp = b.term.get("sp")
    sp = sp or b.tsp
    return "%s:%d" % (relpath(sp[0]), sp[1])


def after(fn, pt):
    """Points at which execution continues after `pt` has executed."""
    b = fn.blocks[pt[0]]
    if pt[1] < len(b.st):
        return [(pt[0], pt[1] + 1)]
    return [(s, 0) for _, s in b.succs]


def reach(fn, starts, goals, avoid=(), avoid_edges=()):
    """Is some goal point reachable from a start point without executing an avoid point or
    taking an avoided edge ((block, label) or (block, successor))?  Returns the block path or None.
    Arriving at a goal counts even if the goal is also an avoid point."""
    goals = set(goals)
    avoid = set(avoid) | set(getattr(fn, "inl_err", ()))
    avoid_edges = set(avoid_edges)
    marks = defaultdict(list)
    for (b, i) in goals:
        marks[b].append((i, 0))
    for (b, i) in avoid:
        marks[b].append((i, 1))
    for b in marks:
        marks[b].sort()
    seen = set()
    parent = {}
    q = deque()
    for s in starts:
        q.append(s)
        parent[s] = None
    while q:
        cur = q.popleft()
        if cur in seen:
            continue
        seen.add(cur)
        b, i0 = cur
        blocked = False
        for (i, kind) in marks.get(b, ()):
            if i < i0:
                continue
            if kind == 0:
                path = [b]
                p = parent.get(cur)
                while p is not None:
                    path.append(p[0])
                    p = parent.get(p)
                path.reverse()
                return path + [("goal", (b, i))]
            blocked = True
            break
        if blocked:
            continue
        for lab, s in fn.blocks[b].succs:
            if (b, lab) in avoid_edges or (b, s) in avoid_edges:
                continue
            n = (s, 0)
            if n not in seen and n not in parent:
                parent[n] = cur
                q.append(n)
            elif n not in seen and n in parent:
                pass
    return None


def reachable_blocks(fn, starts=((0, 0),), avoid=(), avoid_edges=()):
    """Set of blocks whose *start* is reachable."""
    avoid = set(avoid) | set(getattr(fn, "inl_err", ()))
    avoid_edges = set(avoid_edges)
    cut = {}
    for (b, i) in avoid:
        cut[b] = min(cut.get(b, 1 << 30), i)
    seen = set()
    q = deque(starts)
    out = set()
    while q:
        cur = q.popleft()
        if cur in seen:
            continue
        seen.add(cur)
        b, i0 = cur
        if i0 == 0:
            out.add(b)
        c = cut.get(b)
        if c is not None and c >= i0:
            continue
        for lab, s in fn.blocks[b].succs:
            if (b, lab) in avoid_edges or (b, s) in avoid_edges:
                continue
            if (s, 0) not in seen:
                q.append((s, 0))
    return out


ENTRY = ((0, 0),)


def path_text(fn, path):
    """Render a block path as the list of call sites passed (file:line callee)."""
    if not path:
        return ""
    out = []
    for b in path:
        if isinstance(b, tuple):
            out.append("-> %s" % pt_loc(fn, b[1]))
            continue
        t = fn.blocks[b].term
        if t["t"] == "call":
            ck = callee_skey(t) or "indirect"
            out.append("bb%d(:%d %s)" % (b, t["sp"][1], short(ck)))
    if len(out) > 14:
        out = out[:6] + ["..."] + out[-7:]
    return " ".join(out)


def short(k):
    """Shorten a path for messages: keep the last two segments of each path."""
    if k is None:
        return "?"
    k = re.sub(r"\b(?:[a-z_0-9]+::)+(?=[A-Za-z_0-9]+::[A-Za-z_0-9{}#]+)", "", k)
    return k


# ------------------------------------------------------------------------------------------------
# call-site selection

def call_points(fn, pat, arg_pred=None):
    """Points of call terminators whose resolved callee (or declared item) matches regex `pat`
    (searched in the generic-stripped key)."""
    rx = re.compile(pat) if isinstance(pat, str) else pat
    out = []
    for b in fn.blocks:
        t = b.term
        if t["t"] != "call":
            continue
        names = set()
        for k in (t.get("callee"), t.get("decl")):
            if k:
                names.add(strip_generics(k))
        if any(rx.search(n) for n in names):
            if arg_pred is None or arg_pred(fn, t):
                out.append(term_pt(fn, b.idx))
    return out


def term_at(fn, pt):
    return fn.blocks[pt[0]].term


# ------------------------------------------------------------------------------------------------
# definitions and ORIGIN

TRANSPARENT = re.compile(
    r"(^|::)(clone|deref|deref_mut|as_ref|as_mut|borrow|borrow_mut|unwrap|expect|unwrap_or_default|into|from|"
    r"branch|as_str|as_bytes|as_slice|to_owned|to_string|to_vec|as_path|as_deref|as_deref_mut|into_inner|"
    r"get_mut|lock|read|write|try_into|unwrap_unchecked|into_iter|iter|iter_mut|by_ref|as_ptr|as_mut_ptr|cast|"
    r"to_path_buf|into_boxed_slice|new_unchecked|get_unchecked|from_mut|from_ref|index|index_mut|"
    r"copied|cloned|unwrap_or|map_err|inspect_err|inspect|join|is_some|is_none|is_ok|is_err|next|next_back|peek|enumerate|rev|map|filter|ok_or|ok_or_else|as_mut_slice|into_string|to_le_bytes|to_be_bytes)$")


MUTATORS = re.compile(r"(Vec|VecDeque|HashSet|BTreeSet|HashMap|BTreeMap|BinaryHeap)::(push|push_back|push_front|insert|extend|append|extend_from_slice)$")


class Defs:
    """Flow-insensitive reaching definitions: local -> [(point, kind, payload)]."""

    def __init__(self, fn):
        self.fn = fn
        d = defaultdict(list)
        for b in fn.blocks:
            for i, st in enumerate(b.st):
                if st["s"] == "=":
                    lhs = st["lhs"]
                    d[lhs["l"]].append(((b.idx, i), "assign", st))
            t = b.term
            if t["t"] == "call":
                d[t["dest"]["l"]].append((term_pt(fn, b.idx), "call", t))
        # container stores: `v.push(x)` / `set.insert(x)` define (the contents of) v
        for b in fn.blocks:
            t = b.term
            if t["t"] != "call" or len(t["args"]) < 2:
                continue
            ck = callee_skey(t) or ""
            if not MUTATORS.search(ck):
                continue
            a0 = t["args"][0]
            if a0.get("k") not in ("copy", "move"):
                continue
            base = None
            l0 = a0["pl"]["l"]
            for _pt, kind, st in d.get(l0, ()):
                if kind == "assign" and st["rv"]["r"] == "ref" and not _field_elems(st["rv"]["pl"]):
                    base = st["rv"]["pl"]["l"]
            if base is None:
                continue
            for x in t["args"][1:]:
                d[base].append((term_pt(fn, b.idx), "store", x))
        # core::mem::swap(&mut a, &mut b) / replace(&mut a, v): a (and b) are redefined by the call
        for b in fn.blocks:
            t = b.term
            if t["t"] != "call" or len(t["args"]) != 2:
                continue
            ck = callee_skey(t) or ""
            if not re.search(r"^core::mem::(swap|replace)$", ck):
                continue

            def base_of(a, depth=0):
                if a.get("k") not in ("copy", "move") or depth > 3:
                    return None
                for _pt, kind, st in d.get(a["pl"]["l"], ()):
                    if kind == "assign" and st["rv"]["r"] == "ref" and not _field_elems(st["rv"]["pl"]):
                        if "*" not in st["rv"]["pl"]["p"]:
                            return st["rv"]["pl"]["l"]
                        # reborrow `&mut (*_27)` of `_27 = &mut local`
                        return base_of({"k": "copy", "pl": {"l": st["rv"]["pl"]["l"], "p": []}}, depth + 1)
                return None
            b0 = base_of(t["args"][0])
            if ck.endswith("::swap"):
                b1 = base_of(t["args"][1])
                if b0 is not None and b1 is not None:
                    d[b0].append((term_pt(fn, b.idx), "store", {"k": "copy", "pl": {"l": b1, "p": []}}))
                    d[b1].append((term_pt(fn, b.idx), "store", {"k": "copy", "pl": {"l": b0, "p": []}}))
            elif b0 is not None:
                d[b0].append((term_pt(fn, b.idx), "store", t["args"][1]))
        self.d = d

    def of(self, local):
        return self.d.get(local, [])


def defs(fn):
    if getattr(fn, "_defs", None) is None:
        fn._defs = Defs(fn)
    return fn._defs


WRAPPERS = re.compile(r"^alloc::(boxed::Box|sync::Arc|rc::Rc)::new$|^core::(cell::RefCell|cell::Cell)::new$")
VALUE_CALLS = re.compile(r"core::cmp::(max|min)$|core::cmp::Ord::(max|min)$|::(saturating|wrapping|checked)_(add|sub|mul)$")


class _Opt:
    def __init__(self, calls=True, bin=False):
        self.calls = calls
        self.bin = bin

    def __bool__(self):
        return self.calls


def value_slice(fn, op):
    """Sources and visited locals of the backward slice that also follows arithmetic operands
    (used to ask whether a size expression and a comparison share a value)."""
    seen = set()
    srcs = origins(fn, op, seen=seen, through_calls=_Opt(True, True))
    return srcs, {l for (l, _p) in seen}


def origins(fn, op, depth=0, seen=None, through_calls=True):
    """Backward, field-sensitive slice of an operand / place to its sources.  Returns source dicts:
      {'k':'const', 'v':.., 'named':.., 'str':..}
      {'k':'param', 'i':n, 'proj':[field names...]}
      {'k':'field', 'owner':T, 'f':name, 'ty':..}              (a read through T.f on the way)
      {'k':'call', 'callee':skey, 'pt':pt, 't':term}
      {'k':'agg', 'adt':.., 'variant':.., 'pt':pt, 'st':stmt}
      {'k':'bin'|'un'|'discr'|'other', 'pt':pt, 'st':stmt}
    Definitions are flow-insensitive (every assignment to the local counts)."""
    if seen is None:
        seen = set()
    if op is None:
        return []
    k = op.get("k")
    if k == "const":
        c = op["c"]
        src = {"k": "const"}
        for f in ("v", "named", "str", "fn", "ty", "bytes", "pvariant", "promoted", "pvals", "pnames"):
            if f in c:
                src[f] = c[f]
        return [src]
    pl = op.get("pl") if k in ("copy", "move") else op
    if pl is None or "l" not in pl:
        return []
    return _origins_place(fn, pl["l"], _field_elems(pl), depth, seen, through_calls)


def _field_elems(pl):
    return [e for e in pl["p"] if isinstance(e, dict) and "f" in e]


def _names(fes):
    return [e["f"] for e in fes]


def _origins_op(fn, o, rest, depth, seen, tc):
    if o.get("k") == "const":
        return origins(fn, o) if not rest else []
    pl = o["pl"]
    return _origins_place(fn, pl["l"], _field_elems(pl) + rest, depth + 1, seen, tc)


def _origins_place(fn, l, fes, depth, seen, tc):
    out = []
    for e in fes:
        if e.get("of") and e["of"] not in ("()", "{closure}"):
            out.append({"k": "field", "owner": strip_generics(e["of"]), "f": e["f"], "ty": e.get("ty")})
    names = _names(fes)
    key = (l, tuple(names))
    if key in seen or depth > 60:
        return out
    seen.add(key)
    if 1 <= l <= fn.argc:
        out.append({"k": "param", "i": l, "proj": names})
    for pt, kind, payload in defs(fn).of(l):
        if kind == "assign":
            st = payload
            rv = st["rv"]
            r = rv["r"]
            lf = _names(_field_elems(st["lhs"]))
            if lf == names[:len(lf)]:
                rest = fes[len(lf):]
            elif names == lf[:len(names)]:
                rest = []
            else:
                continue
            if r in ("use", "cast", "repeat"):
                out += _origins_op(fn, rv["a"], rest, depth, seen, tc)
            elif r in ("ref", "rawptr"):
                pl = rv["pl"]
                out += _origins_place(fn, pl["l"], _field_elems(pl) + rest, depth + 1, seen, tc)
            elif r == "agg":
                ops = rv["ops"]
                if rest:
                    sel = None
                    f0 = rest[0]["f"]
                    if "fields" in rv and f0 in rv["fields"] and len(rv["fields"]) == len(ops):
                        sel = rv["fields"].index(f0)
                    elif f0.isdigit() and int(f0) < len(ops):
                        sel = int(f0)
                    if sel is not None:
                        out += _origins_op(fn, ops[sel], rest[1:], depth, seen, tc)
                    else:
                        for o in ops:
                            out += _origins_op(fn, o, [], depth, seen, tc)
                else:
                    src = {"k": "agg", "pt": pt, "st": st}
                    for f in ("adt", "variant", "closure"):
                        if f in rv:
                            src[f] = strip_generics(rv[f]) if f != "variant" else rv[f]
                    out.append(src)
                    if rv.get("variant") in ("Some", "Ok", "Err") or rv.get("tuple") or rv.get("closure") or rv.get("array"):
                        for o in ops:
                            out += _origins_op(fn, o, [], depth, seen, tc)
            elif r == "bin":
                out.append({"k": "bin", "op": rv["op"], "pt": pt, "st": st})
                if getattr(tc, "bin", False):
                    out += _origins_op(fn, rv["a"], [], depth, seen, tc)
                    out += _origins_op(fn, rv["b"], [], depth, seen, tc)
            elif r == "un":
                out.append({"k": "un", "op": rv["op"], "pt": pt, "st": st})
                out += _origins_op(fn, rv["a"], [], depth, seen, tc)
            elif r == "discr":
                out.append({"k": "discr", "pt": pt, "st": st})
                pl = rv["pl"]
                out += _origins_place(fn, pl["l"], _field_elems(pl), depth + 1, seen, tc)
            else:
                out.append({"k": "other", "pt": pt, "st": st})
        elif kind == "store":
            out += _origins_op(fn, payload, [], depth, seen, tc)
        else:
            t = payload
            lf = _names(_field_elems(t["dest"]))
            if lf and lf != names[:len(lf)] and names != lf[:len(names)]:
                continue
            ck = callee_skey(t) or "indirect"
            out.append({"k": "call", "callee": ck, "pt": pt, "t": t})
            if tc and fes and t["args"] and re.search(r"Iterator>?::next$", ck):
                # the element handed out by `next()` of a zip / enumerate chain is positional: `.0` of a zip item comes from the first
                # iterator, `.1` from the second; `.0` of an enumerate item is the running index
                tree = _iter_tree(fn, t["args"][0], 0)
                if tree is not None and tree[0] != "leaf":
                    lf_ = _names(_field_elems(t["dest"]))
                    rest_ = fes[len(lf_):] if lf_ == names[:len(lf_)] else fes
                    if rest_ and rest_[0]["f"] == "0":          # the payload of Some(..)
                        plain = not _tree_has(tree, ("rev", "skip", "step_by", "skip_while"))
                        for s_ in _elem_origins(fn, tree, rest_[1:], depth + 1, seen, tc, plain):
                            s_ = dict(s_)
                            s_.setdefault("via_next", pt)
                            s_.setdefault("plain", plain)
                            out.append(s_)
                        continue
            if tc and (TRANSPARENT.search(ck) or WRAPPERS.search(ck)) and t["args"]:
                out += _origins_op(fn, t["args"][0], [], depth, seen, tc)
            elif getattr(tc, "bin", False) and VALUE_CALLS.search(ck):
                for a in t["args"]:
                    out += _origins_op(fn, a, [], depth, seen, tc)
    return out


ITER_PASS = re.compile(r"(^|::)(iter|iter_mut|into_iter|by_ref|take|skip|rev|peekable|copied|cloned|step_by|skip_while|take_while|fuse|chunks_exact|chunks_exact_mut|chunks|windows|deref|deref_mut|borrow_mut|as_mut|as_ref)$")


def _iter_tree(fn, op, depth):
    """The construction of an iterator operand: ('zip', A, B) | ('enumerate', A) | ('pass', name, A) | ('leaf', operand)."""
    if depth > 12 or op.get("k") not in ("copy", "move"):
        return ("leaf", op)
    l = op["pl"]["l"]
    ds = [(kind, p_) for (_pt, kind, p_) in defs(fn).of(l) if kind in ("assign", "call")]
    if len(ds) != 1:
        return ("leaf", op)
    kind, p_ = ds[0]
    if kind == "assign":
        rv = p_["rv"]
        if rv["r"] in ("use", "cast"):
            return _iter_tree(fn, rv["a"], depth + 1)
        if rv["r"] in ("ref", "rawptr"):
            return _iter_tree(fn, {"k": "copy", "pl": {"l": rv["pl"]["l"], "p": [e for e in rv["pl"]["p"] if e != "*"]}}, depth + 1) if not _field_elems(rv["pl"]) else ("leaf", op)
        return ("leaf", op)
    ck = callee_skey(p_) or ""
    a = p_["args"]
    if re.search(r"(^|::)zip$", ck) and len(a) == 2:
        return ("zip", _iter_tree(fn, a[0], depth + 1), _iter_tree(fn, a[1], depth + 1))
    if re.search(r"(^|::)enumerate$", ck) and len(a) == 1:
        return ("enumerate", _iter_tree(fn, a[0], depth + 1))
    if ITER_PASS.search(ck) and a:
        return ("pass", ck.rsplit("::", 1)[-1], _iter_tree(fn, a[0], depth + 1))
    return ("leaf", op)


def _tree_has(tree, names):
    if tree[0] == "pass" and tree[1] in names:
        return True
    return any(_tree_has(x, names) for x in tree[1:] if isinstance(x, tuple) and x and x[0] in ("zip", "enumerate", "pass", "leaf"))


def _elem_origins(fn, tree, rest, depth, seen, tc, plain):
    k = tree[0]
    if k == "zip":
        if rest and rest[0]["f"] in ("0", "1"):
            return _elem_origins(fn, tree[1 + int(rest[0]["f"])], rest[1:], depth, seen, tc, plain)
        return _elem_origins(fn, tree[1], [], depth, seen, tc, plain) + _elem_origins(fn, tree[2], [], depth, seen, tc, plain)
    if k == "enumerate":
        if rest and rest[0]["f"] == "0":
            return [{"k": "index", "from": 0, "plain": plain}]
        if rest and rest[0]["f"] == "1":
            return _elem_origins(fn, tree[1], rest[1:], depth, seen, tc, plain)
        return [{"k": "index", "from": 0, "plain": plain}] + _elem_origins(fn, tree[1], [], depth, seen, tc, plain)
    if k == "pass":
        return _elem_origins(fn, tree[2], rest, depth, seen, tc, plain)
    op = tree[1]
    if op.get("k") == "const":
        return origins(fn, op)
    pl = op["pl"]
    return _origins_place(fn, pl["l"], _field_elems(pl), depth + 1, set(), tc)


def origin_fields(fn, op):
    return {(s["owner"], s["f"]) for s in origins(fn, op) if s["k"] == "field"}


def origin_calls(fn, op):
    return {s["callee"] for s in origins(fn, op) if s["k"] == "call"}


def origin_consts(fn, op):
    return [s for s in origins(fn, op) if s["k"] == "const"]


# ------------------------------------------------------------------------------------------------
# error / success exits

def _is_err_agg(rv):
    return rv.get("r") == "agg" and rv.get("adt", "").endswith("result::Result") and rv.get("variant") == "Err"


def _is_ok_agg(rv):
    return rv.get("r") == "agg" and rv.get("adt", "").endswith("result::Result") and rv.get("variant") == "Ok"


# keys of workspace functions every normal return of which is an Err (`fn fail(..) -> Result<_, E> { ..; Err(e) }`): filled by
# facts.Program after loading; `return fail(..)` is then an error exit of the caller, like `?`
ALWAYS_ERR = set()


def always_err(fn):
    """Every definition of fn's return place is an Err aggregate (and there is at least one)."""
    ds = defs(fn).of(0)
    if not ds or not fn.locals[0].startswith("core::result::Result<"):
        return False
    for _pt, kind, payload in ds:
        if kind != "assign" or not _is_err_agg(payload["rv"]):
            return False
    return True


def error_points(fn):
    """Points that put an error into the return place: `?` residuals, `_0 = Err(..)`,
    `_0 = Some(Err(..))`, `_0 = f(..)` for a workspace function f that only ever returns Err."""
    pts = []
    d = defs(fn)
    for b in fn.blocks:
        t = b.term
        if t["t"] == "call":
            ck = callee_skey(t) or ""
            if ck.endswith("FromResidual>::from_residual") or ck.endswith("::from_residual"):
                if t["dest"]["l"] == 0:
                    pts.append(term_pt(fn, b.idx))
            elif t["dest"]["l"] == 0 and not t["dest"]["p"] and (t.get("callee") in ALWAYS_ERR or strip_generics(t.get("callee") or "") in ALWAYS_ERR):
                pts.append(term_pt(fn, b.idx))
        for i, st in enumerate(b.st):
            if st["s"] != "=" or st["lhs"]["l"] != 0 or st["lhs"]["p"]:
                continue
            rv = st["rv"]
            if _is_err_agg(rv):
                pts.append((b.idx, i))
            elif rv.get("r") == "agg" and rv.get("variant") == "Some" and rv.get("adt", "").endswith("option::Option"):
                o = rv["ops"][0]
                if o.get("k") in ("move", "copy") and not o["pl"]["p"]:
                    ds = d.of(o["pl"]["l"])
                    if ds and all(k == "assign" and _is_err_agg(p["rv"]) for _, k, p in ds):
                        pts.append((b.idx, i))
    pts.extend(getattr(fn, "inl_err", ()))
    return pts


def return_points(fn):
    return [term_pt(fn, b.idx) for b in fn.blocks if b.term["t"] == "return"]


def ok_points(fn):
    """Points `_0 = Ok(..)` (or `_0 = Some(Ok(..))`)."""
    pts = []
    d = defs(fn)
    for b in fn.blocks:
        for i, st in enumerate(b.st):
            if st["s"] != "=" or st["lhs"]["l"] != 0 or st["lhs"]["p"]:
                continue
            rv = st["rv"]
            if _is_ok_agg(rv):
                pts.append((b.idx, i))
            elif rv.get("r") == "agg" and rv.get("variant") == "Some" and rv.get("adt", "").endswith("option::Option"):
                o = rv["ops"][0]
                if o.get("k") in ("move", "copy") and not o["pl"]["p"]:
                    ds = d.of(o["pl"]["l"])
                    if ds and all(k == "assign" and _is_ok_agg(p["rv"]) for _, k, p in ds):
                        pts.append((b.idx, i))
    return pts


def must_pass(fn, through, goals=None, starts=ENTRY, extra_avoid=(), avoid_edges=()):
    """Every path from `starts` to a goal (default: any non-error return) executes a `through`
    point.  Returns None if it holds, else a bypassing path."""
    if goals is None:
        goals = return_points(fn)
    avoid = set(through) | set(error_points(fn)) | set(extra_avoid)
    return reach(fn, starts, goals, avoid=avoid, avoid_edges=avoid_edges)


def order(fn, a_pts, b_pts, cycles=False):
    """Every path from entry to any B point executes an A point first.  Returns list of
    (b point, bypass path) for violations."""
    bad = []
    a = set(a_pts)
    for b in b_pts:
        p = reach(fn, ENTRY, [b], avoid=a - {b})
        if p is not None:
            bad.append((b, p))
        elif cycles:
            p = reach(fn, after(fn, b), [b], avoid=a - {b})
            if p is not None:
                bad.append((b, p))
    return bad


# ------------------------------------------------------------------------------------------------
# GUARDED: which switch edge dominates a point

def switch_blocks(fn):
    return [b for b in fn.blocks if b.term["t"] == "switch"]


def edge_dominates(fn, bb, label, pt):
    """Point `pt` is unreachable from entry when edge (bb,label) is removed (and reachable with it)."""
    if reach(fn, ENTRY, [pt]) is None:
        return False
    return reach(fn, ENTRY, [pt], avoid_edges={(bb, label)}) is None


def guards_of(fn, pt):
    """All (switch block, label) edges that dominate `pt`."""
    out = []
    for b in switch_blocks(fn):
        for lab, s in b.succs:
            # cheap pre-filter: removing every *other* edge of this switch must keep pt reachable
            if edge_dominates(fn, b.idx, lab, pt):
                out.append((b.idx, lab))
    return out


def switch_cond_sources(fn, bb):
    """Origin sources of the discriminant of the switch ending block bb."""
    t = fn.blocks[bb].term
    return origins(fn, t["discr"])


# ------------------------------------------------------------------------------------------------
# field writes

def field_writes(fn, owner_rx, field):
    """Points of statements assigning to a place whose last field projection is owner.field."""
    rx = re.compile(owner_rx)
    out = []
    for b in fn.blocks:
        for i, st in enumerate(b.st):
            if st["s"] != "=":
                continue
            fes = _field_elems(st["lhs"])
            if st["lhs"]["p"] and st["lhs"]["p"][-1] == "*" and getattr(fn, "inlined", None):
                # a store through a captured `&mut owner.field` (a closure that was looked through: `|_| self.failed = true`)
                if _store_through_captured_ref(fn, {"l": st["lhs"]["l"], "p": st["lhs"]["p"][:-1]}, rx, field, 0):
                    out.append((b.idx, i))
                    continue
            if not fes:
                continue
            e = fes[-1]
            if e["f"] == field and rx.search(strip_generics(e["of"])):
                out.append((b.idx, i))
        t = b.term
        if t["t"] == "call":
            fes = _field_elems(t["dest"])
            if fes and fes[-1]["f"] == field and rx.search(strip_generics(fes[-1]["of"])):
                out.append(term_pt(fn, b.idx))
    return out


def _store_through_captured_ref(fn, ptr_place, rx, field, depth):
    """ptr_place holds a reference: is it (a copy of) an upvar that captured `&mut owner.field`, or directly `&mut owner.field`?"""
    if depth > 5:
        return False
    fes = _field_elems(ptr_place)
    if fes and fes[-1]["f"].isdigit():
        return _captured_field_ref(fn, ptr_place, rx, field)
    if ptr_place["p"]:
        return False
    for _pt, kind, p_ in defs(fn).of(ptr_place["l"]):
        if kind != "assign":
            continue
        rv = p_["rv"]
        if rv["r"] in ("use", "cast") and rv["a"].get("k") in ("copy", "move"):
            if _store_through_captured_ref(fn, rv["a"]["pl"], rx, field, depth + 1):
                return True
        elif rv["r"] == "ref":
            f2 = _field_elems(rv["pl"])
            if f2 and f2[-1]["f"] == field and rx.search(strip_generics(f2[-1]["of"])):
                return True
            if rv["pl"]["p"] and rv["pl"]["p"][-1] == "*" and _store_through_captured_ref(fn, {"l": rv["pl"]["l"], "p": rv["pl"]["p"][:-1]}, rx, field, depth + 1):
                return True         # a reborrow `&mut *r`
    return False


def _captured_field_ref(fn, lhs, rx, field):
    """lhs is `*(env.k)` (or `*((*env).k)`): does upvar k hold `&mut owner.field`?  Follows the closure environment back to the aggregate
    that built it and the operand stored in slot k."""
    fes = _field_elems(lhs)
    if not fes or not fes[-1]["f"].isdigit():
        return False
    k = int(fes[-1]["f"])
    env = lhs["l"]
    seen = set()
    work = [env]
    while work:
        l = work.pop()
        if l in seen:
            continue
        seen.add(l)
        for _pt, kind, p_ in defs(fn).of(l):
            if kind != "assign":
                continue
            rv = p_["rv"]
            if rv["r"] == "agg" and rv.get("closure") and k < len(rv["ops"]):
                o = rv["ops"][k]
                if o.get("k") in ("copy", "move"):
                    for _q, kind2, p2 in defs(fn).of(o["pl"]["l"]):
                        if kind2 == "assign" and p2["rv"]["r"] == "ref":
                            f2 = _field_elems(p2["rv"]["pl"])
                            if f2 and f2[-1]["f"] == field and rx.search(strip_generics(f2[-1]["of"])):
                                return True
            elif rv["r"] in ("use", "cast") and rv["a"].get("k") in ("copy", "move"):
                work.append(rv["a"]["pl"]["l"])
            elif rv["r"] in ("ref", "rawptr"):
                work.append(rv["pl"]["l"])
    return False


def field_reads(fn, owner_rx, field):
    """Points whose rvalue / call args mention a place with projection owner.field."""
    rx = re.compile(owner_rx)
    out = []

    def has(pl):
        for e in _field_elems(pl):
            if e["f"] == field and rx.search(strip_generics(e["of"])):
                return True
        return False

    def op_has(o):
        return o.get("k") in ("copy", "move") and has(o["pl"])

    for b in fn.blocks:
        for i, st in enumerate(b.st):
            if st["s"] != "=":
                continue
            rv = st["rv"]
            hit = False
            if "pl" in rv and has(rv["pl"]):
                hit = True
            for kk in ("a", "b"):
                if kk in rv and isinstance(rv[kk], dict) and op_has(rv[kk]):
                    hit = True
            for o in rv.get("ops", ()):
                if op_has(o):
                    hit = True
            if hit:
                out.append((b.idx, i))
        t = b.term
        if t["t"] == "call" and any(op_has(a) for a in t["args"]):
            out.append(term_pt(fn, b.idx))
    return out


# ------------------------------------------------------------------------------------------------
# HELD: lock guards held at each point

GUARD_RX = re.compile(r"^std::sync::(?:poison::)?(?:mutex::|rwlock::)?(MutexGuard|RwLockReadGuard|RwLockWriteGuard)<'[^,]*, (.*)>$")
GUARD_ANY = re.compile(r"std::sync::(?:poison::)?(?:mutex::|rwlock::)?(MutexGuard|RwLockReadGuard|RwLockWriteGuard)<")
LOCK_CALL = re.compile(r"std::sync::(?:poison::)?(?:mutex::|rwlock::)?(Mutex|RwLock)::(lock|read|write|try_lock|try_read|try_write)$")


def is_guard_ty(ty):
    return bool(GUARD_RX.match(ty))


def guard_inner(ty):
    m = GUARD_RX.match(ty)
    return m.group(2) if m else None


class Held:
    """Forward dataflow of guard-typed locals.  A guard local becomes held when assigned
    (from a call or a move) and stops when moved out or dropped.  Both must- and may- variants."""

    def __init__(self, prog, fn, lock_names=None):
        self.fn = fn
        self.prog = prog
        self.guards = {i for i, t in enumerate(fn.locals) if is_guard_ty(t)}
        self.ident = {}
        self._compute_ident()
        self._run()
        self.borrowed = self._borrowed_locks()

    def lock_id_of_local(self, g):
        return self.ident.get(g) or ("guard<%s>" % guard_inner(self.fn.locals[g]))

    def _compute_ident(self):
        fn = self.fn
        for g in self.guards:
            ids = set()
            for s in origins(fn, {"k": "copy", "pl": {"l": g, "p": []}}):
                if s["k"] == "call" and LOCK_CALL.search(s["callee"]):
                    t = s["t"]
                    for f in origins(fn, t["args"][0]):
                        if f["k"] == "field" and re.search(r"sync::(?:poison::)?(?:mutex::|rwlock::)?(Mutex|RwLock)<", f.get("ty") or ""):
                            ids.add("%s.%s" % (short_ty(f["owner"]), f["f"]))
            if len(ids) == 1:
                self.ident[g] = ids.pop()
            elif len(ids) > 1:
                self.ident[g] = "|".join(sorted(ids))
            else:
                inner = guard_inner(fn.locals[g])
                cands = lock_fields_guarding(self.prog, inner)
                if len(cands) == 1:
                    self.ident[g] = cands[0]

    def _moves_in(self, o):
        if o.get("k") == "move" and not o["pl"]["p"] and o["pl"]["l"] in self.guards:
            return o["pl"]["l"]
        return None

    def _transfer_stmt(self, st, s):
        if st["s"] != "=":
            return s
        rv = st["rv"]
        moved = []
        for kk in ("a", "b"):
            if kk in rv and isinstance(rv[kk], dict):
                m = self._moves_in(rv[kk])
                if m is not None:
                    moved.append(m)
        for o in rv.get("ops", ()):
            m = self._moves_in(o)
            if m is not None:
                moved.append(m)
        if moved:
            s = s - set(moved)
        lhs = st["lhs"]
        if not lhs["p"] and lhs["l"] in self.guards:
            s = s | {lhs["l"]}
        return s

    def _transfer_term(self, b, s):
        t = b.term
        k = t["t"]
        if k == "drop":
            pl = t["pl"]
            if not pl["p"] and pl["l"] in self.guards:
                s = s - {pl["l"]}
        elif k == "call":
            moved = [self._moves_in(a) for a in t["args"]]
            moved = [m for m in moved if m is not None]
            if moved:
                s = s - set(moved)
            d = t["dest"]
            if not d["p"] and d["l"] in self.guards:
                s = s | {d["l"]}
        return s

    def _run(self):
        fn = self.fn
        n = len(fn.blocks)
        # parameters of guard type are held on entry
        entry = frozenset(g for g in self.guards if 1 <= g <= fn.argc)
        self.may_in = [None] * n
        self.must_in = [None] * n
        self.may_in[0] = entry
        self.must_in[0] = entry
        work = deque([0])
        while work:
            bi = work.popleft()
            b = fn.blocks[bi]
            may = set(self.may_in[bi])
            must = set(self.must_in[bi])
            for st in b.st:
                may = self._transfer_stmt(st, may)
                must = self._transfer_stmt(st, must)
            may = self._transfer_term(b, may)
            must = self._transfer_term(b, must)
            for _, s in b.succs:
                changed = False
                if self.may_in[s] is None:
                    self.may_in[s] = frozenset(may)
                    self.must_in[s] = frozenset(must)
                    changed = True
                else:
                    nm = self.may_in[s] | may
                    nu = self.must_in[s] & must
                    if nm != self.may_in[s] or nu != self.must_in[s]:
                        self.may_in[s] = frozenset(nm)
                        self.must_in[s] = frozenset(nu)
                        changed = True
                if changed:
                    work.append(s)

    def at(self, pt, must=True):
        """Guard locals held just before executing point pt."""
        bi, i = pt
        src = self.must_in if must else self.may_in
        if src[bi] is None:
            return set()
        s = set(src[bi])
        b = self.fn.blocks[bi]
        for st in b.st[:i]:
            s = self._transfer_stmt(st, s)
        return s

    def locks_at(self, pt, must=True):
        return {self.lock_id_of_local(g) for g in self.at(pt, must)} | self.borrowed

    _BUSY = set()

    def _borrowed_locks(self):
        """Locks held by *every caller* for the whole of this function: a private function that takes `&mut T` / `&T` where T is what
        exactly one lock of the program guards, and that every call site hands the contents of a guard it holds at that moment
        (`helper(&mut guard)`), runs inside its callers' critical section -- the same as if it had been handed the guard itself."""
        fn, prog = self.fn, self.prog
        out = set()
        if fn.pub or fn.key in Held._BUSY or not getattr(prog, "fns", None):
            return out
        for i in range(1, fn.argc + 1):
            m = re.match(r"^&(?:'\S+ )?(?:mut )?(.*)$", fn.locals[i])
            if not m or is_guard_ty(m.group(1)):
                continue
            cands = lock_fields_guarding(prog, m.group(1))
            if len(cands) != 1:
                continue
            Held._BUSY.add(fn.key)
            try:
                sites = 0
                ok = True
                for g in prog.fns.values():
                    if g.crate != fn.crate:
                        continue
                    for b, t in g.calls():
                        if fn.key not in prog.targets(t):
                            continue
                        sites += 1
                        if i - 1 >= len(t["args"]):
                            ok = False
                            continue
                        hg = held(prog, g)
                        now = hg.at(term_pt(g, b.idx), must=True)
                        via = False
                        for s_ in origins(g, t["args"][i - 1]):
                            if s_["k"] == "call" and re.search(r"Deref(Mut)?>?::deref(_mut)?$", s_["callee"]):
                                for s2 in origins(g, s_["t"]["args"][0]):
                                    pass
                                gl = {x for x in base_guard_locals(g, s_["t"]["args"][0]) if x in hg.guards}
                                if gl and gl <= now and all(hg.lock_id_of_local(x) == cands[0] for x in gl):
                                    via = True
                        if not via and cands[0] not in hg.borrowed:
                            ok = False
                if sites and ok:
                    out.add(cands[0])
            finally:
                Held._BUSY.discard(fn.key)
        return out


def base_guard_locals(fn, op, depth=0):
    """Locals a reference operand ultimately borrows from (through `&mut x`, reborrows and moves of references)."""
    out = set()
    if op.get("k") not in ("copy", "move") or depth > 6:
        return out
    l = op["pl"]["l"]
    ds = [p_ for (_pt, kind, p_) in defs(fn).of(l) if kind == "assign"]
    if not ds:
        out.add(l)
        return out
    for st in ds:
        rv = st["rv"]
        if rv["r"] == "ref":
            if "*" in rv["pl"]["p"]:
                out |= base_guard_locals(fn, {"k": "copy", "pl": {"l": rv["pl"]["l"], "p": []}}, depth + 1)
            else:
                out.add(rv["pl"]["l"])
        elif rv["r"] == "use":
            out |= base_guard_locals(fn, rv["a"], depth + 1)
    return out


def short_ty(t):
    t = strip_generics(t)
    return t.rsplit("::", 1)[-1] if "::" in t else t


_lock_field_cache = {}


def lock_fields_guarding(prog, inner):
    """Lock identities `Type.field` for ADT fields of type Mutex<inner> / RwLock<inner>."""
    key = (id(prog), inner)
    if key in _lock_field_cache:
        return _lock_field_cache[key]
    out = []
    if inner is not None:
        want = strip_generics(inner)
        for a in prog.adts.values():
            for v in a["variants"]:
                for name, ty, _pub in v["fields"]:
                    m = re.match(r"^std::sync::(?:poison::)?(?:mutex::|rwlock::)?(?:Mutex|RwLock)<(.*)>$", ty)
                    if m and strip_generics(m.group(1)) == want:
                        out.append("%s.%s" % (short_ty(a["key"]), name))
    _lock_field_cache[key] = out
    return out


def held(prog, fn):
    if getattr(fn, "_held", None) is None:
        fn._held = Held(prog, fn)
    return fn._held


def held(prog, fn):  # noqa: F811
    h = getattr(fn, "_held", None)
    if h is None:
        h = Held(prog, fn)
        fn._held = h
    return h


# ------------------------------------------------------------------------------------------------
# TABLE: read a `match` table off a loop-free function

def switch_table(fn, max_paths=256):
    """For a loop-free function whose body is a tree of switches over its parameters ending in constant /
    variant results: [(labels along the path, result description)].  Returns None if the function has a
    cycle or too many paths.  Results: ('const', v) | ('variant', name) | ('Ok', r) | ('Err', r) |
    ('Some', r) | ('None',) | ('call', callee) | ('param', i) | ('?',)."""
    out = []
    stack = [(0, [], {}, frozenset())]
    while stack:
        bi, labels, env, seen = stack.pop()
        if bi in seen:
            return None
        if len(out) > max_paths:
            return None
        seen = seen | {bi}
        env = dict(env)
        b = fn.blocks[bi]

        def val(o):
            if o.get("k") == "const":
                c = o["c"]
                if "v" in c:
                    return ("const", c["v"])
                if "named" in c:
                    return ("named", c["named"])
                return ("const?", c.get("ty"))
            pl = o["pl"]
            if not pl["p"]:
                if pl["l"] in env:
                    return env[pl["l"]]
                if 1 <= pl["l"] <= fn.argc:
                    return ("param", pl["l"])
            return ("?",)
        for st in b.st:
            if st["s"] != "=" or st["lhs"]["p"]:
                continue
            rv = st["rv"]
            l = st["lhs"]["l"]
            r = rv["r"]
            if r == "use":
                env[l] = val(rv["a"])
            elif r == "agg" and "adt" in rv:
                v = rv["variant"]
                if rv["ops"]:
                    env[l] = (v, val(rv["ops"][0])) if v in ("Ok", "Err", "Some") else ("variant", v, tuple(val(o) for o in rv["ops"]))
                else:
                    env[l] = ("None",) if v == "None" else ("variant", v)
            elif r == "agg" and rv.get("tuple"):
                env[l] = ("tuple",) + tuple(val(o) for o in rv["ops"])
            elif r == "discr":
                env[l] = ("discr", rv["pl"]["l"])
            elif r == "cast":
                env[l] = val(rv["a"])
            else:
                env[l] = ("?",)
        t = b.term
        k = t["t"]
        if k == "return":
            out.append((tuple(labels), env.get(0, ("?",))))
        elif k == "switch":
            for lab, s in b.succs:
                stack.append((s, labels + [lab], env, seen))
        elif k == "call":
            if not t["dest"]["p"]:
                env[t["dest"]["l"]] = ("call", callee_skey(t) or "?")
            if t["to"] is not None:
                stack.append((t["to"], labels, env, seen))
        else:
            for _lab, s in b.succs:
                stack.append((s, labels, env, seen))
    return out


# ------------------------------------------------------------------------------------------------
# MustCall closure: a call to a helper all of whose success paths perform X counts as X

def must_calls(prog, g, pat, arg_pred, depth, memo):
    key = (g.key, pat if isinstance(pat, str) else pat.pattern, id(arg_pred), depth)
    if key in memo:
        return memo[key]
    memo[key] = False   # cycles: assume not
    pts = call_points_closed(prog, g, pat, arg_pred, depth - 1, memo)
    ok = bool(pts) and must_pass(g, pts) is None
    memo[key] = ok
    return ok


def call_points_closed(prog, f, pat, arg_pred=None, depth=3, memo=None):
    """call_points plus calls to workspace helpers that perform a matching call on every success path
    (inlining bound = depth).  The argument predicate is evaluated at the innermost (direct) site."""
    memo = {} if memo is None else memo
    direct = call_points(f, pat, arg_pred)
    if depth <= 0:
        return direct
    out = list(direct)
    for b, t in f.calls():
        pt = term_pt(f, b.idx)
        if pt in direct:
            continue
        ks = prog.targets(t)
        if len(ks) != 1:
            continue
        g = prog.fns.get(ks[0])
        if g is None or g is f:
            continue
        if must_calls(prog, g, pat, arg_pred, depth, memo):
            out.append(pt)
    return out
