"""Lowering of lazy iterator chains whose closures are new.

`for x in it.filter_map(|e| f(e))`, `it.map(|p| link(p)).collect::<Result<Vec<_>, _>>()?`, `it.for_each(|x| ..)`: the closure runs inside
`Iterator::next` of a library adaptor, so a rule that looks for the calls of the loop body in the function finds nothing.  When (and only
when) a closure of the chain is *new* -- not in rules/known_closures.txt -- the function is rewritten so that the element pipeline is
explicit:

  n = next(&mut chain)                 ==>   H:  m = next(leaf);  match m { None => n = None,
                                                                            Some(x0) => x1 = c1(x0)          (map)
                                                                                        if !c2(&x1) goto H   (filter)
                                                                                        match c3(x1) { None => goto H, Some(x2) => .. }  (filter_map)
                                                                                        n = Some(xk) }
  dest = consumer(chain, ..)           ==>   L:  n = next(&mut chain);  match n { None => X, Some(item) => body(item); goto L }   X: dest = ..

with each closure body spliced in place (the same splice as for combinators).  Consumers read: for_each, collect / sum / count / last /
max / min / extend (the body is `keep the item`; an `Err` item ends a collect into a Result), find_map, any, all.  Everything else -- and
any chain with an adaptor this module does not model -- is left as it is.  On the reference tree nothing is lowered."""
import copy
import re

from .facts import callee_skey

STAGES = {"map": "map", "filter": "filter", "filter_map": "filter_map", "inspect": "inspect"}
PASS = re.compile(r"(^|::)(iter|iter_mut|into_iter|by_ref|copied|cloned|peekable|fuse|deref|deref_mut|borrow_mut|as_mut|as_ref)$")
CONSUMERS_PLAIN = re.compile(r"Iterator>?::(collect|sum|count|last|max|min|product)$|::(from_iter)$")
CONSUMERS_CL = {"for_each": "for_each", "find_map": "find_map", "any": "any", "all": "all"}


def _single_def(f, l):
    out = []
    for b in f.blocks:
        for st in b.st:
            if st.get("s") == "=" and st["lhs"]["l"] == l and not st["lhs"]["p"]:
                out.append(st)
        t = b.term
        if t["t"] == "call" and t["dest"]["l"] == l and not t["dest"]["p"]:
            out.append(t)
    return out[0] if len(out) == 1 else None


def _closure_fn(prog, f, op, I):
    cl = I._closure_behind(f, op)
    if cl is None:
        return None
    d_, cloc = cl
    g = prog.fns.get(d_["rv"]["closure"])
    if g is None:
        cands = [h for h in prog.fns.values() if h.skey == d_["rv"]["closure"] or h.key == d_["rv"]["closure"]]
        g = cands[0] if len(cands) == 1 else None
    if g is None or not g.blocks or len(g.blocks) > I.MAX_BLOCKS:
        return None
    return g, cloc


def chain_of(prog, f, op, I, depth=0):
    """(stages innermost first, leaf operand, any closure new?) of an iterator operand, or None if it is not a chain this module models."""
    if depth > 12 or op.get("k") not in ("copy", "move") or op["pl"]["p"]:
        return None
    d = _single_def(f, op["pl"]["l"])
    if d is None:
        return ([], op, False)
    if d.get("s") == "=":
        rv = d["rv"]
        if rv["r"] in ("use", "cast"):
            return chain_of(prog, f, rv["a"], I, depth + 1)
        if rv["r"] in ("ref", "rawptr") and not [e for e in rv["pl"]["p"] if e != "*"]:
            return chain_of(prog, f, {"k": "copy", "pl": {"l": rv["pl"]["l"], "p": []}}, I, depth + 1)
        return ([], op, False)
    ck = callee_skey(d) or ""
    name = ck.rsplit("::", 1)[-1]
    if re.search(r"Iterator>?::(map|filter|filter_map|inspect)$", ck) and len(d["args"]) == 2:
        sub = chain_of(prog, f, d["args"][0], I, depth + 1)
        cf = _closure_fn(prog, f, d["args"][1], I)
        if sub is None or cf is None:
            return None
        g, cloc = cf
        new = "%s\t%s" % (I.closure_parent_skey(g), I.closure_shape(g)) not in (I.known_closures() or ())
        want = 2
        if g.argc != want:
            return None
        return (sub[0] + [(name, g, cloc)], sub[1], sub[2] or new)
    if PASS.search(ck) and d["args"]:
        return chain_of(prog, f, d["args"][0], I, depth + 1)
    return ([], op, False)


def candidates(prog, f, I):
    """[(block index, kind, payload)]: kind 'next' (a next() call on a chain with a new closure) or 'consume' (a consumer call on one)."""
    if I.known_closures() is None:
        return []
    out = []
    for b, t in f.calls():
        if t.get("to") is None or not t["args"]:
            continue
        ck = callee_skey(t) or ""
        if re.search(r"Iterator>?::next$", ck) and len(t["args"]) == 1:
            ch = chain_of(prog, f, t["args"][0], I)
            if ch and ch[0] and ch[2]:
                out.append((b.idx, "next", ch))
            continue
        name = ck.rsplit("::", 1)[-1]
        if CONSUMERS_PLAIN.search(ck) and len(t["args"]) == 1:
            ch = chain_of(prog, f, t["args"][0], I)
            if ch and ch[0] and ch[2]:
                out.append((b.idx, "consume", (name, ch, None)))
        elif re.search(r"Iterator>?::(for_each|find_map|any|all)$", ck) and len(t["args"]) == 2:
            ch = chain_of(prog, f, t["args"][0], I)
            cf = _closure_fn(prog, f, t["args"][1], I)
            if ch is None or cf is None:
                continue
            g, cloc = cf
            new = "%s\t%s" % (I.closure_parent_skey(g), I.closure_shape(g)) not in (I.known_closures() or ())
            if (ch[2] or new) and g.argc == 2:
                out.append((b.idx, "consume", (name, ch, (g, cloc))))
    return out


class _B:
    """Small builder over the function dict."""

    def __init__(self, d, sp, tag, I):
        self.d, self.sp, self.tag, self.I = d, sp, tag, I

    def local(self, ty):
        self.d["locals"].append(ty)
        return len(self.d["locals"]) - 1

    def stmt(self, lhs, rv):
        return {"s": "=", "lhs": lhs if isinstance(lhs, dict) else {"l": lhs, "p": []}, "rv": rv, "sp": self.sp, "inl": self.tag}

    def block(self, st, term):
        self.d["blocks"].append({"st": st, "term": term, "cleanup": False, "tsp": self.sp})
        return len(self.d["blocks"]) - 1

    def reserve(self):
        return self.block([], {"t": "unreachable"})

    def fill(self, i, st, term):
        self.d["blocks"][i]["st"] = st
        self.d["blocks"][i]["term"] = term

    def goto(self, to):
        return {"t": "goto", "to": to, "sp": self.sp}

    def switch(self, l, arms, otherwise):
        return {"t": "switch", "discr": {"k": "move", "pl": {"l": l, "p": []}}, "arms": arms, "otherwise": otherwise, "sp": self.sp}

    def some_payload(self, l, ty):
        return {"l": l, "p": [{"dc": "Some"}, {"f": "0", "of": "core::option::Option::Some", "ty": ty}]}

    def splice(self, g, cloc, args, ret_to):
        """Copy closure g (environment local cloc) into d with its parameters bound to `args` (operands); every return jumps to the
        block index that ret_to(ret_operand) -- called once per return -- produces.  Returns (entry statements, entry block)."""
        d, I = self.d, self.I
        off = len(d["locals"])
        base = len(d["blocks"])
        d["locals"].extend(g.locals)
        for n, pl in g.names:
            npl = copy.deepcopy(pl)
            I._remap_place(npl, off)
            d["names"].append([n, npl])
        pre = []
        env_ty = g.locals[1]
        if env_ty.startswith("&"):
            pre.append(self.stmt(off + 1, {"r": "ref", "mut": "mut" in env_ty[:8], "pl": {"l": cloc, "p": []}}))
        else:
            pre.append(self.stmt(off + 1, {"r": "use", "a": {"k": "move", "pl": {"l": cloc, "p": []}}}))
        for i, a in enumerate(args):
            pre.append(self.stmt(off + 2 + i, a))
        for gb in g.blocks:
            d["blocks"].append(None)
        for k, gb in enumerate(g.blocks):
            st = copy.deepcopy(gb.st)
            tm = copy.deepcopy(gb.term)
            I._walk(st, off)
            I._walk(tm, off)
            I._remap_succs(tm, base)
            nb = {"st": st, "term": tm, "cleanup": gb.cleanup, "tsp": gb.tsp}
            if tm["t"] == "return":
                nb["term"] = self.goto(ret_to({"k": "move", "pl": {"l": off, "p": []}}))
            d["blocks"][base + k] = nb
        return pre, base


def _pipeline(bd, f, stages, item_local, item_ty, on_item, skip_to):
    """Blocks that push the element in item_local through the stages; on_item(local, type) -> block index to continue at with the final
    element; skip_to: block to go to when a filter drops the element.  Returns the entry block index."""
    if not stages:
        return on_item(item_local, item_ty)
    name, g, cloc = stages[0]
    rest = stages[1:]
    ret_ty = g.locals[0]
    if name == "map":
        out = bd.local(ret_ty)

        def ret_to(op):
            nxt = _pipeline(bd, f, rest, out, ret_ty, on_item, skip_to)
            return bd.block([bd.stmt(out, {"r": "use", "a": op})], bd.goto(nxt))
        pre, entry = bd.splice(g, cloc, [{"r": "use", "a": {"k": "move", "pl": {"l": item_local, "p": []}}}], ret_to)
        return bd.block(pre, bd.goto(entry))
    if name in ("filter", "inspect"):
        def ret_to(op):
            nxt = _pipeline(bd, f, rest, item_local, item_ty, on_item, skip_to)
            if name == "inspect":
                return bd.block([], bd.goto(nxt))
            keep = bd.local("bool")
            return bd.block([bd.stmt(keep, {"r": "use", "a": op})], bd.switch(keep, [[0, skip_to]], nxt))
        pre, entry = bd.splice(g, cloc, [{"r": "ref", "mut": False, "pl": {"l": item_local, "p": []}}], ret_to)
        return bd.block(pre, bd.goto(entry))
    if name == "filter_map":
        inner = ret_ty[len("core::option::Option<"):-1] if ret_ty.startswith("core::option::Option<") else ""
        opt = bd.local(ret_ty)
        out = bd.local(inner)

        def ret_to(op):
            nxt = _pipeline(bd, f, rest, out, inner, on_item, skip_to)
            dl = bd.local("isize")
            some = bd.block([bd.stmt(out, {"r": "use", "a": {"k": "move", "pl": bd.some_payload(opt, inner)}})], bd.goto(nxt))
            return bd.block([bd.stmt(opt, {"r": "use", "a": op}), bd.stmt(dl, {"r": "discr", "pl": {"l": opt, "p": []}})], bd.switch(dl, [[0, skip_to]], some))
        pre, entry = bd.splice(g, cloc, [{"r": "use", "a": {"k": "move", "pl": {"l": item_local, "p": []}}}], ret_to)
        return bd.block(pre, bd.goto(entry))
    return on_item(item_local, item_ty)


def _first_item_ty(stages):
    name, g, _c = stages[0]
    ty = g.locals[2]
    if name in ("filter", "inspect") and ty.startswith("&"):
        ty = re.sub(r"^&('\S+ )?(mut )?", "", ty)
    return ty


def _lower_next(bd, f, d, bidx, ch):
    """`n = next(&mut chain) -> to`  ==>  the explicit element pipeline (see module docstring)."""
    stages, leaf, _new = ch
    blk = d["blocks"][bidx]
    t = blk["term"]
    dest, to = t["dest"], t["to"]
    ty0 = _first_item_ty(stages)
    m = bd.local("core::option::Option<%s>" % ty0)
    dl = bd.local("isize")
    x0 = bd.local(ty0)
    head = bd.reserve()
    none = bd.block([bd.stmt(copy.deepcopy(dest), {"r": "agg", "adt": "core::option::Option", "variant": "None", "fields": [], "ops": []})], bd.goto(to))

    def on_item(l, ty):
        return bd.block([bd.stmt(copy.deepcopy(dest), {"r": "agg", "adt": "core::option::Option", "variant": "Some", "fields": ["0"], "ops": [{"k": "move", "pl": {"l": l, "p": []}}]})], bd.goto(to))
    pipe = _pipeline(bd, f, stages, x0, ty0, on_item, head)
    some = bd.block([bd.stmt(x0, {"r": "use", "a": {"k": "move", "pl": bd.some_payload(m, ty0)}})], bd.goto(pipe))
    test = bd.block([bd.stmt(dl, {"r": "discr", "pl": {"l": m, "p": []}})], bd.switch(dl, [[0, none]], some))
    leaf_ty = d["locals"][leaf["pl"]["l"]] if leaf.get("pl") else "?"
    call = dict(copy.deepcopy(t), args=[copy.deepcopy(leaf)], dest={"l": m, "p": []}, to=test,
                callee="<%s as core::iter::traits::iterator::Iterator>::next" % leaf_ty.lstrip("&").replace("mut ", ""))
    call["decl"] = "core::iter::traits::iterator::Iterator::next"
    bd.fill(head, [], call)
    blk["term"] = bd.goto(head)


def _lower_consume(bd, f, d, bidx, payload):
    name, ch, cl = payload
    stages, leaf, _new = ch
    blk = d["blocks"][bidx]
    t = blk["term"]
    dest, to = t["dest"], t["to"]
    dest_ty = d["locals"][dest["l"]] if not dest["p"] else ""
    if stages:
        ty0 = _first_item_ty(stages)
    else:
        g0 = cl[0]
        ty0 = g0.locals[2]
    m = bd.local("core::option::Option<%s>" % ty0)
    dl = bd.local("isize")
    x0 = bd.local(ty0)
    head = bd.reserve()
    # the exit of the loop
    if name in ("for_each",):
        exit_ = bd.block([bd.stmt(copy.deepcopy(dest), {"r": "agg", "tuple": True, "ops": []})], bd.goto(to))
    elif name == "find_map":
        exit_ = bd.block([bd.stmt(copy.deepcopy(dest), {"r": "agg", "adt": "core::option::Option", "variant": "None", "fields": [], "ops": []})], bd.goto(to))
    elif name in ("any", "all"):
        exit_ = bd.block([bd.stmt(copy.deepcopy(dest), {"r": "use", "a": {"k": "const", "c": {"ty": "bool", "v": 0 if name == "any" else 1}}})], bd.goto(to))
    else:
        exit_ = bd.block([], copy.deepcopy(t))          # the consumer itself (collect, sum, ..) stays, after the loop

    def on_item(l, ty):
        if cl is not None:
            g, cloc = cl
            arg = {"r": "use", "a": {"k": "move", "pl": {"l": l, "p": []}}}
            if name == "for_each":
                pre, entry = bd.splice(g, cloc, [arg], lambda op: bd.block([], bd.goto(head)))
                return bd.block(pre, bd.goto(entry))
            if name == "find_map":
                rty = g.locals[0]
                r_ = bd.local(rty)
                d2 = bd.local("isize")

                def ret_to(op):
                    hit = bd.block([bd.stmt(copy.deepcopy(dest), {"r": "use", "a": {"k": "move", "pl": {"l": r_, "p": []}}})], bd.goto(to))
                    return bd.block([bd.stmt(r_, {"r": "use", "a": op}), bd.stmt(d2, {"r": "discr", "pl": {"l": r_, "p": []}})], bd.switch(d2, [[0, head]], hit))
                pre, entry = bd.splice(g, cloc, [arg], ret_to)
                return bd.block(pre, bd.goto(entry))
            if name in ("any", "all"):
                b_ = bd.local("bool")

                def ret_to(op):
                    hit = bd.block([bd.stmt(copy.deepcopy(dest), {"r": "use", "a": {"k": "const", "c": {"ty": "bool", "v": 1 if name == "any" else 0}}})], bd.goto(to))
                    arms = [[0, head]] if name == "any" else [[0, hit]]
                    return bd.block([bd.stmt(b_, {"r": "use", "a": op})], bd.switch(b_, arms, hit if name == "any" else head))
                pre, entry = bd.splice(g, cloc, [arg], ret_to)
                return bd.block(pre, bd.goto(entry))
        # plain consumers: the item is kept; an Err item ends a collect into a Result
        if ty.startswith("core::result::Result<") and dest_ty.startswith("core::result::Result<"):
            d2 = bd.local("isize")
            ety = ""
            err = bd.block([bd.stmt(copy.deepcopy(dest), {"r": "agg", "adt": "core::result::Result", "variant": "Err", "fields": ["0"],
                                                          "ops": [{"k": "move", "pl": {"l": l, "p": [{"dc": "Err"}, {"f": "0", "of": "core::result::Result::Err", "ty": ety}]}}]})], bd.goto(to))
            return bd.block([bd.stmt(d2, {"r": "discr", "pl": {"l": l, "p": []}})], bd.switch(d2, [[1, err]], head))
        return bd.block([], bd.goto(head))
    pipe = _pipeline(bd, f, stages, x0, ty0, on_item, head)
    some = bd.block([bd.stmt(x0, {"r": "use", "a": {"k": "move", "pl": bd.some_payload(m, ty0)}})], bd.goto(pipe))
    test = bd.block([bd.stmt(dl, {"r": "discr", "pl": {"l": m, "p": []}})], bd.switch(dl, [[0, exit_]], some))
    leaf_ty = d["locals"][leaf["pl"]["l"]] if leaf.get("pl") else "?"
    call = {"t": "call", "decl": "core::iter::traits::iterator::Iterator::next", "trait": "core::iter::traits::iterator::Iterator",
            "callee": "<%s as core::iter::traits::iterator::Iterator>::next" % leaf_ty.lstrip("&").replace("mut ", ""), "rk": "item",
            "ga": "[%s]" % leaf_ty, "args": [copy.deepcopy(leaf)], "dest": {"l": m, "p": []}, "to": test, "sp": t.get("sp") or blk["tsp"]}
    bd.fill(head, [], call)
    blk["term"] = bd.goto(head)


def lower(prog, f, d, cands, I):
    """Apply the lowering to the function dict d (a deep copy of f's blocks).  Returns the closures that were spliced."""
    used = []
    for bidx, kind, payload in cands:
        sp = d["blocks"][bidx]["term"].get("sp") or d["blocks"][bidx]["tsp"]
        stages = payload[0] if kind == "next" else payload[1][0]
        tag = (stages[0][1].key if stages else payload[2][0].key)
        bd = _B(d, sp, tag, I)
        if kind == "next":
            _lower_next(bd, f, d, bidx, payload)
        else:
            _lower_consume(bd, f, d, bidx, payload)
            if payload[2] is not None:
                used.append(payload[2][0])
        used += [g for _n, g, _c in stages]
    return used
