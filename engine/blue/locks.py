"""Whole-program lock facts: which locks a function may acquire (transitively), the lock-order graph,
which functions may block on a condition variable, and condvar <-> mutex pairing."""
import re
from collections import defaultdict

from . import prim as P
from .facts import callee_skey, strip_generics

WAIT_CALL = re.compile(r"std::sync::(?:poison::)?(?:condvar::)?Condvar::(wait|wait_while|wait_timeout|wait_timeout_while|wait_timeout_ms)$")
NOTIFY_CALL = re.compile(r"std::sync::(?:poison::)?(?:condvar::)?Condvar::(notify_one|notify_all)$")


def lock_id_of_call(prog, f, t):
    """Identity of the lock acquired by a Mutex::lock / RwLock::{read,write} call terminator."""
    ids = set()
    statics = set()
    for s in P.origins(f, t["args"][0]):
        if s["k"] == "field" and re.search(r"sync::(?:poison::)?(?:mutex::|rwlock::)?(Mutex|RwLock)<", s.get("ty") or ""):
            ids.add("%s.%s" % (P.short_ty(s["owner"]), s["f"]))
        elif s["k"] == "const" and s.get("named"):
            statics.add("static:" + s["named"].rsplit("::", 1)[-1])
        elif s["k"] == "other" and "static" in str(s.get("st", {}).get("rv", {}).get("dbg", "")):
            statics.add("static")
    if len(ids) == 1:
        return ids.pop()
    if ids:
        return "|".join(sorted(ids))
    if statics:
        return sorted(statics)[0]
    # fall back on the guarded type
    dest_ty = f.locals[t["dest"]["l"]]
    m = re.search(r"(?:MutexGuard|RwLockReadGuard|RwLockWriteGuard)<'[^,]*, (.*)>, ", dest_ty)
    inner = m.group(1) if m else None
    c = P.lock_fields_guarding(prog, inner) if inner else []
    if len(c) == 1:
        return c[0]
    return "guard<%s>" % (inner or "?")


class LockFacts:
    def __init__(self, prog, crates):
        self.prog = prog
        self.crates = set(crates)
        self.fns = [f for f in prog.fns.values() if f.crate in self.crates]
        self.direct = defaultdict(set)      # fn key -> {lock id}
        self.direct_sites = defaultdict(list)   # fn key -> [(pt, lock id)]
        self.waits = defaultdict(list)      # fn key -> [(pt, condvar id)]
        self.notifies = defaultdict(list)   # fn key -> [(pt, condvar id)]
        self.drop_calls = defaultdict(set)  # fn key -> {Drop::drop fn keys reached by Drop terminators}
        self._scan()
        self._fix()

    def condvar_id(self, f, t):
        ids = set()
        for s in P.origins(f, t["args"][0]):
            if s["k"] == "field" and "Condvar" in (s.get("ty") or ""):
                ids.add("%s.%s" % (P.short_ty(s["owner"]), s["f"]))
        return "|".join(sorted(ids)) if ids else "condvar?"

    def _drop_impls(self):
        m = {}
        for f in self.prog.fns.values():
            if f.impl_trait and f.impl_trait.endswith("ops::drop::Drop") and f.name == "drop":
                m[strip_generics(f.impl_self or "")] = f.key
        return m

    def _scan(self):
        dropm = self._drop_impls()
        for f in self.fns:
            for b, t in f.calls():
                ck = callee_skey(t) or ""
                pt = P.term_pt(f, b.idx)
                if P.LOCK_CALL.search(ck) and t["args"]:
                    lid = lock_id_of_call(self.prog, f, t)
                    self.direct[f.key].add(lid)
                    self.direct_sites[f.key].append((pt, lid))
                elif WAIT_CALL.search(ck):
                    self.waits[f.key].append((pt, self.condvar_id(f, t)))
                elif NOTIFY_CALL.search(ck):
                    self.notifies[f.key].append((pt, self.condvar_id(f, t)))
            for b in f.blocks:
                t = b.term
                if t["t"] == "drop":
                    ty = strip_generics(t["ty"])
                    for cand in self._unwrap(ty):
                        if cand in dropm:
                            self.drop_calls[f.key].add((P.term_pt(f, b.idx), dropm[cand]))

    def _unwrap(self, ty):
        """The type itself, the pointee of Arc/Box/Option wrappers, and the types of its fields
        (one level of ADT closure)."""
        out = [ty]
        m = re.match(r"^(?:alloc::sync::Arc|alloc::boxed::Box|core::option::Option|alloc::vec::Vec)<(.*)>$", ty)
        seen = 0
        while m and seen < 4:
            inner = m.group(1).split(", alloc::alloc::Global")[0]
            out.append(inner)
            m = re.match(r"^(?:alloc::sync::Arc|alloc::boxed::Box|core::option::Option|alloc::vec::Vec)<(.*)>$", inner)
            seen += 1
        for t in list(out):
            a = self.prog.adts.get(t)
            if a:
                for v in a["variants"]:
                    for _n, fty, _p in v["fields"]:
                        out.append(strip_generics(fty))
        return out

    def callees(self, f):
        """[(pt, callee key)] including Drop glue of concretely typed locals."""
        out = []
        for b, t in f.calls():
            pt = P.term_pt(f, b.idx)
            for k in self.prog.targets(t):
                out.append((pt, k))
        for pt, k in self.drop_calls.get(f.key, ()):
            out.append((pt, k))
        return out

    def _fix(self):
        # transitive Acquires and MayWait
        self.acq = {f.key: set(self.direct[f.key]) for f in self.fns}
        self.maywait = {f.key: {c for _p, c in self.waits[f.key]} for f in self.fns}
        self.calls = {f.key: self.callees(f) for f in self.fns}
        changed = True
        n = 0
        while changed and n < 50:
            changed = False
            n += 1
            for f in self.fns:
                a = self.acq[f.key]
                w = self.maywait[f.key]
                for _pt, k in self.calls[f.key]:
                    if k in self.acq:
                        if not self.acq[k] <= a:
                            a |= self.acq[k]
                            changed = True
                        if not self.maywait[k] <= w:
                            w |= self.maywait[k]
                            changed = True
        self.rounds = n

    def order_edges(self):
        """{(L1, L2): [(fn skey, loc, via)]} — L2 acquired (directly or in a callee) while L1 is held."""
        edges = defaultdict(list)
        for f in self.fns:
            h = None
            sites = dict(self.direct_sites[f.key])
            for pt, k in [(p, None) for p in sites] + self.calls[f.key]:
                if h is None:
                    h = P.held(self.prog, f)
                heldl = h.locks_at(pt, must=False)
                if not heldl:
                    continue
                if k is None:
                    l2s = {sites[pt]}
                    via = "lock()"
                else:
                    l2s = self.acq.get(k, set())
                    via = strip_generics(k)
                for l1 in heldl:
                    for l2 in l2s:
                        if l1 != l2 or k is None:
                            edges[(l1, l2)].append((f.skey, P.pt_loc(f, pt), via))
        return edges

    def waits_while_holding(self):
        """{(held lock, condvar): [(fn skey, loc, via)]} — a wait on `condvar` may happen (directly or in
        a callee) at a point where `held lock` is held.  The guard handed to the wait is not counted."""
        out = defaultdict(list)
        for f in self.fns:
            h = None
            for pt, c in self.waits[f.key]:
                h = h or P.held(self.prog, f)
                t = P.term_at(f, pt)
                passed = {a["pl"]["l"] for a in t["args"] if a.get("k") == "move" and not a["pl"]["p"]}
                for g in h.at(pt, must=False):
                    if g in passed:
                        continue
                    out[(h.lock_id_of_local(g), c)].append((f.skey, P.pt_loc(f, pt), "wait"))
            for pt, k in self.calls[f.key]:
                cs = self.maywait.get(k)
                if not cs:
                    continue
                h = h or P.held(self.prog, f)
                t = P.term_at(f, pt)
                passed = set()
                if t["t"] == "call":
                    passed = {a["pl"]["l"] for a in t["args"] if a.get("k") == "move" and not a["pl"]["p"]}
                for g in h.at(pt, must=False):
                    lid = h.lock_id_of_local(g)
                    for c in cs:
                        if g in passed:
                            out[("(passed)" + lid, c)].append((f.skey, P.pt_loc(f, pt), strip_generics(k)))
                        else:
                            out[(lid, c)].append((f.skey, P.pt_loc(f, pt), strip_generics(k)))
        return out


def find_cycles(edges):
    """Simple cycles in the lock-order graph (self-loops included)."""
    g = defaultdict(set)
    for (a, b) in edges:
        g[a].add(b)
    cycles = []
    seen_cycles = set()

    def dfs(start, node, path, visited):
        for n in g.get(node, ()):
            if n == start:
                c = tuple(path)
                key = frozenset(c)
                if key not in seen_cycles:
                    seen_cycles.add(key)
                    cycles.append(list(path))
            elif n not in visited and len(path) < 6:
                dfs(start, n, path + [n], visited | {n})
    for s in list(g):
        dfs(s, s, [s], {s})
    return cycles
