#!/usr/bin/env python3
"""tools/bounds_explore.py <fn-key regex> : list implicit-bounds sites of matching functions and the prover's verdicts."""
import os, re, sys
HERE = os.path.dirname(os.path.abspath(__file__))
sys.path.insert(0, os.path.join(HERE, "..", "engine"))
from blue import extract as X, facts as F, bounds as B, prim as P
facts_dir, info = X.extract(repo=os.environ.get("VERIF_REPO", "/repo"), scope="quick")
prog = F.Program(facts_dir)
rx = re.compile(sys.argv[1])
verbose = "-v" in sys.argv
tot = ok = 0
for f in sorted(prog.fns.values(), key=lambda f: f.key):
    if not rx.search(f.skey):
        continue
    bf = B.BF(prog, f)
    for s in bf.sites():
        res = bf.decide(s)
        good = all(j for _w, j in res)
        tot += 1
        ok += good
        if good and not verbose:
            continue
        print("%s [%s] %s:%s %s  %s" % ("ok  " if good else "OPEN", s.get("elem"), F.relpath(f.file), P.pt_line(f, s["pt"]), f.skey, B.named(f, ("x",) + tuple(o[0] for o in s["obl"])) + " in " + s["desc"]))
        for (w, j) in res:
            print("        %-14s %s" % (w, j))
        if not good:
            for fa in bf.dominating_facts(s["pt"]):
                print("          fact: %s %s %s" % (B.named(f, fa[0]), fa[1], B.named(f, fa[2])))
print("sites %d proved %d" % (tot, ok))
