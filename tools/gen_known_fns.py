#!/usr/bin/env python3
"""tools/gen_known_fns.py -- write rules/known_fns.txt: the (generic-stripped) keys of every function of the workspace as it stands.

The table is the reference for engine/blue/inline.py: a private, single-use helper that is *not* in it was introduced after the rules were
written (an `extract function` refactoring, or part of a change under test) and is looked through when a rule asks for its caller.
Functions that are in the table are never looked through, so the view changes nothing on the tree the rules were confirmed on.
Regenerate after every commit to /repo that adds functions the rules name (python3 tools/gen_known_fns.py)."""
import os, sys
VERIF = os.path.dirname(os.path.dirname(os.path.abspath(__file__)))
sys.path.insert(0, os.path.join(VERIF, "engine"))
os.environ["VERIF_NO_INLINE"] = "1"      # the table lists the program as written, before any helper is looked through
from blue import extract as X, facts as F

fd, info = X.extract(repo=os.environ.get("VERIF_REPO", "/repo"), scope="full")
prog = F.Program(fd)
keys = sorted({f.skey for f in prog.fns.values() if "{closure" not in f.skey})
out = os.path.join(VERIF, "rules", "known_fns.txt")
open(out, "w").write("\n".join(keys) + "\n")
print("wrote %s: %d functions" % (out, len(keys)))
# closures are numbered, and a new closure renumbers the old ones: they are listed by parent and by the shape of their body
from blue import inline as I
cl = sorted({"%s\t%s" % (I.closure_parent_skey(f), I.closure_shape(f)) for f in prog.fns.values() if "{closure" in f.skey})
out = os.path.join(VERIF, "rules", "known_closures.txt")
open(out, "w").write("\n".join(cl) + "\n")
print("wrote %s: %d closures" % (out, len(cl)))
