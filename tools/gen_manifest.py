#!/usr/bin/env python3
"""Regenerate /verif/MANIFEST.json from the claim table below (one entry per property with a rule module)."""
import json
import os

VERIF = os.path.dirname(os.path.dirname(os.path.abspath(__file__)))

BASE_NOTE = ("Trusted base: rustc nightly's type checker, MIR construction and Instance::try_resolve; the bluefacts "
             "serialisation (per-crate function floors); bluecheck's CFG algorithms; the hand-confirmed rule tables and "
             "exception tables printed in the evidence.  Path-insensitive.  Panic audits cover explicit constructs everywhere and, "
             "on the decode paths of C09/C12/C13/C15/C16, the implicit slice/index bounds checks; overflow Asserts are out of scope.  The behavioural remainder named in coverage.not_decided is NOT claimed.")

CLAIMS = {
    "C02": ("durability/ordering protocol + error discipline (MUSTPASS/ORDER/GUARDED/ORIGIN over MIR CFGs); re-evaluates the manifest reader/replay/rollover rules C13.1/5/6",
            "Decides the protocol shape that crash safety needs on every path: ack only after the covering fdatasync (the coalesced token is the maximum offset under every ordering; everything handed to the fsync queue is a write-queue token or 0), SST "
            "sync before use, manifest write<flush<sync<rollover, link<manifest<install, log retired last and only on the Ok edge of the ingest, no storage error "
            "dropped or unwrapped, no truncating open of data files.  A batch is reduced to one entry per key before it is stamped, logged and inserted (what is durable can be replayed), and every explicit panic on the write path is an internal invariant listed with its reason.  A manifest handle whose write failed appends nothing behind the torn edit.  SstBuilder::seal writes nothing after its sync_all; every fallible step of a manifest edit is recorded in poison.  Only the flush thread and recover_one retire a log; a batch is reduced to the last write per key; a log builder whose write failed acknowledges nothing more.  Does not enumerate crash states.", "§4 C02"),
    "C09": ("checksum-gate dominance, sanity-gate chain, bounded-allocation slice, R-ERR + explicit-panic audit + implicit-bounds audit (array-bounds dataflow on byte buffers) over REACH(read entry points)",
            "Decides that every consumer of file bytes is dominated by the equal edge of its CRC comparison, that the "
            "final-block sanity gates dominate the first block load, that data-sized allocations are bounded, and that no "
            "explicit panic / dropped error is reachable from the file-reading entry points, and that every index / slice of a "
            "byte buffer on those paths is in range by a dominating comparison on the same buffer (exceptions listed with "
            "reasons).  A message a constructor decodes straight from file bytes and keeps must be covered by a checksum comparison (the SST final block is not: known finding F19).  A count decoded from a block is subtracted from a length only under a check; the manifest reader drops an unfinished edit only at the end of its input.  The log reader reads the padding it skips and requires zeros; a FIRST frame without its SECOND is an error.  Does not decide detection of every flip nor integer-overflow panics.", "§4 C09, §9.1"),
    "C12": ("ORDER/GUARDED/ORIGIN over the log writer and reader CFGs; writer/reader discriminant table agreement; R-ERR + explicit-panic + implicit-bounds audit; re-evaluates C02.1 (ack after covering fdatasync, offset covers the batch) and C18.1 (queue hand-off)",
            "Decides: append acknowledges only after the covering fdatasync; frame CRC gate and header size bounds dominate "
            "the hand-out; the discriminants written equal those accepted and FIRST is completed only by SECOND; split "
            "records are written header/payload/pad/header/payload after the size checks; failures poison the builder; no "
            "error is lost or unwrapped in the reader; fsync() hands the sync queue a value in the write queue's unit.  An error leaves no bytes of the failed batch in the reader's buffer.  The reader's frame-size bound is at least the largest batch the writer admits (constants compared by value).  A FIRST frame without its SECOND is an error; a builder whose write failed takes no more batches and no piece of a frame is refused once the first is out.  Does not decide boundary arithmetic, the prefix property under "
            "truncation, or exactly-once under interleavings.", "§4 C12"),
    "C13": ("ORDER/GUARDED/ORIGIN over Manifest::{open,_apply,rollover} and ManifestIterator::next; who-may-call on manifest files; HELD for the lock table; implicit-bounds audit of mani",
            "Decides: one append then sync_data before apply returns; rollover links a backup, writes the roll-up to a "
            "temporary and renames it; the reader delivers an edit only at its separator and drops a trailing partial edit; "
            "lines are CRC-gated; the directory lock is taken before reading and owned by the handle; only _apply/rollover "
            "write manifest files.  Writer and reader agree on the alphabet of a line (shortest line admitted; non-ASCII text, a trailing CR and the action characters as info keys refused at write time); a refused in-process lock attempt opens no descriptor.  A handle whose write failed accepts no further edit or rollover; a rollover that died after linking its backup is resumed, not repeated (the fragments keep chaining).  Every fallible step of an edit is recorded; None is answered only at the end of the input; nothing unlinks or renames the lock file.  A roll-up carries every string and every info key.  Does not decide tolerance of every truncation/crash point or the string alphabet.", "§4 C13"),
    "C08": ("who-may-call enumeration of every remove/rename/hard_link site with ORIGIN path classification; GUARDED/ORDER on unref, verifier and orphan scan (incl. the numeric order of manifest fragments and who may run the scan); ESCAPE of the VersionRef; MUSTPASS re-read of the base version after a wait",
            "Decides the deletion capability: nothing under sst/, mani/ or a log is ever unlinked by the store, an sst/ file is "
            "moved to trash/ only under dec()==true and strong_count==1, versions are referenced before publication, the "
            "verifier unlinks only what a durable intent names and only after verify_one, the orphan scan skips roll-ups and "
            "only renames, folds fragments in numeric order and runs only while the tree is being opened; a new version is derived from the "
            "version current at installation and installed only after the manifest edit removing its predecessor's files (C02.4 re-evaluated); scan cursors own the VersionRef pinning their files.  Every function that replaces the current version references the new version's files first and unreferences the outgoing version afterwards; the last holder's unref depends on nothing but strong_count == 1.  The verifier schedules a removed file for unlinking only if the same edit does not add it back (C08.7, sibling of the orphan scan).  Does not decide that reference counts are "
            "numerically right for every history.", "§4 C08"),
    "C04": ("equality-gate table (GUARDED fail-closed Setsum comparisons), ORDER of Edit::info I/O/D before apply, accumulator MUSTPASS, loop-body MUSTPASS for GC discard",
            "Decides presence and placement of every balance gate and accumulator: compaction commit only on input == output + "
            "discard, I/O/D on every store transaction, tree-vs-manifest comparison on open and before install, builders "
            "accumulate every entry and seal writes that digest, GC adds each dropped entry to the discard it reports, the "
            "verifier's gates exist, fail closed and dominate its verdict, every edit refreshes the state the final gate checks, and "
            "the verifier reads every file a transaction adds and recomputes its setsum (the necessary condition of rejecting an "
            "altered output).  The GC replay accepts only once the replayed collector is exhausted (a retained key in no output is a loss wherever it sorts).  Every compaction output that is summed into 'O' is named by the edit (C05.3).  The 'I' of the edit a replayed log writes derives from the manifest's 'O' read in recover_one itself, not from a value handed in (C04.2).  A same-file compaction (`-A +A` in one edit) is not waited for in trash/ by the verifier (C08.7).  Does not decide that the numbers are right for every history or that every tamper is rejected.", "§4 C04"),
    "C05": ("who-may-call + GUARDED (GC only under top_level), loop-body MUSTPASS (every entry read is written; every input/output wired; every policy child consulted), per-key state reset analysis, accumulator shape of the policy combinators, ORIGIN",
            "Decides rewrite completeness and GC confinement: GC is reachable only on the top_level edge and only with the "
            "configured policy; a plain compaction writes every entry it reads and leaves its loop only at end of input; "
            "inputs are removed/opened/merged/summed and outputs added/linked/recorded/summed; GC's drops equal its discard; the "
            "collector resets its per-key state on every key change; any/all consult every child without short-circuit and the version "
            "counter always retains a key's first untombstoned version; the multi-builder seals every builder it lets go, records every file it "
            "opens and forwards each entry unchanged to the current builder.  "
            "Outputs are cut only between two different keys (or at a full table).  A policy combinator defines and forwards every method of the Determiner trait to every child.  The version a compaction installs derives from a snapshot taken under the lock that installs it (C08.6).  Entries reach an output cut through get_builder(key) only.  Does not decide multiset equality of contents or GC policy semantics.", "§4 C05"),
    "C06": ("HELD lock-guard dataflow (must/may), ORDER, GUARDED, WRITES and ORIGIN over KeyValueStore::{write,load,range_scan,_memtable_thread}",
            "Decides the critical-section and completion-order skeleton linearizability needs: one critical section assigns queue "
            "position, sequence number, memtable and log; Ok only after append < insert < head-of-list wait < unlink < notify; "
            "readers capture (mem, imm, version, timestamp) in one critical section; rollover swaps and drains in one critical "
            "section, creates the new log before its first state write (a failed rollover leaves the store as it was) and clears imm after ingest; a failed write leaves the wait list and notifies under the store mutex; the readers' timestamp field is advanced only after the batch is inserted and "
            "at the head of the list.  Every memtable point-read entry the store uses is handed the snapshot timestamp.  Within a batch the last write of a key is the one that becomes visible (C02.8).  At open the readers' snapshot is built from the same value as the allocation counter, with no subtraction (C06.5).  Does not decide linearizability over all interleavings.", "§4 C06"),
    "C18": ("ORDER/MUSTPASS/loop-body MUSTPASS/HELD/WRITES over do_work, WaitList and the LRU; wait-kind classification (filtering vs. plain condvar waits) with HELD at predicate writers; lock-order graph of sync42",
            "Decides hand-off and accounting pairing: every do_work exit unlinks then notifies, returns its own waiter's Output, "
            "the leader publishes every taken waiter's output before leaving and clears doing_work; wait-list head/tail change "
            "only under its lock in link/_unlink; LRU size and key map change together and nodes are freed after unmapping, "
            "raw derefs only under the cache lock; a wait that re-waits on a private predicate is used only where every writer of "
            "that predicate holds the mutex slept with, every other wait is re-entered in a loop.  an unlink that finds a parked linker always announces the free slot; a use (lookup hit, overwrite, insert) makes the LRU entry the most recently used.  notify_head signals whenever a head exists, under no further condition.  The LRU links a new entry before it evicts, and evicts down to the capacity.  Does not decide "
            "The outputs of a batch go to exactly the batched waiters: the window of the zip is [taken off by hand, taken) (C18.1).  exactly-once/ordering under all interleavings.", "§4 C18"),
    "C20": ("whole-program Acquires/MayWait summaries (call graph + typed Drop glue) -> lock-order graph cycles; condvar wait/notify discipline via HELD (Mutex and RwLock guards); ORDER/MUSTPASS for announcements, claim release and the mandatory-compaction emit; re-evaluates the coalescing-queue and wait-list rules C18.1/2/5 that every write passes through",
            "Decides deadlock-freedom structure: no two locks are taken in both orders (one flag-gated pair checked and excepted), "
            "waits re-check their predicate inside one critical section, notifications cannot race a predicate check, the set of "
            "(lock held, condvar waited) pairs equals a triaged table, every awaited state change is announced, failed compactions "
            "release their claim, a compaction chosen as mandatory is emitted on every path under no score comparison (only the optional "
            "candidate is score-gated).  The ingest stall predicate compares only quantities the mandatory-compaction predicate also compares and reads nothing but the version; option limits that end the compaction search exempt level 0 (the file-count limits do not: known finding F17).  A chosen compaction ends applied or in an error: no success return leaves its claim behind.  Between linking into the wait list and the hand-over a writer (and the helpers it calls there) waits on no condition variable (C20.2).  Does not decide that a relieving compaction is always found by the search, nor fairness.", "§4 C20"),
    "C01": ("ORDER/GUARDED/ORIGIN over KeyValueStore::load, Version::load, open/recover; re-evaluates the sibling rules a point read depends on (C06.1/3/4/5, C02.4/5, C10.2, C05.1/5, C13.5, C08.4/6); worklist-relaxation MUSTPASS in recover",
            "Decides the lookup-precedence and freshness skeleton: mem before imm before tree with early exit on hit or tombstone; "
            "L0 newest-first before deeper levels; batches stamped with the fresh sequence number before use; publish after "
            "durable; imm cleared after ingest; sequence numbers restart above every existing timestamp; plus the snapshot/visibility, "
            "bloom-accumulation, GC per-key-state, log-replay, manifest replay-order and orphan-scan rules of the sibling properties; the "
            "conflict predicate of concurrent compactions is closed-interval intersection in levels and keys (read as a conjunction "
            "of comparisons), a compaction is expanded only by files contained in its range, an ingest derives the installed "
            "version from a snapshot re-read after its stall wait, and the memtable answers for exactly the requested key at the "
            "requested timestamp with versions ordered newest first; recovery's level propagation re-queues every component "
            "whose level it raises (worklist relaxation).  In a deeper level every file between lower_bound(key) and upper_bound(key) is consulted, and compaction outputs are cut only between two different keys; a compaction candidate is offered only behind a test that every overlapping file of the levels in between is one of its inputs; a new file enters at level 0; recovery must treat a group of mutually unordered files specially before handing it to one level (it does not: known finding F32).  Only the oldest level-0 file (the minimum by timestamp) leaves level 0 by a trivial move, and level 0 is walked newest first (sort direction and reversals read from MIR).  Does not decide "
            "the arithmetic of the compaction input closure, the rest of recovery level assignment, bloom/block search arithmetic.", "§4 C01"),
    "C03": ("ORIGIN chains (pipeline composition), loop-body MUSTPASS (every file wrapped and merged), GUARDED (overlap skip) plus the overlap predicate's decision table over (bound kinds x key order) read from MIR, HELD (snapshot capture); re-evaluates C11.1/4/5/6, C06.3/5, C05.5",
            "Decides pipeline composition: every scan is Bounds(Pruning(Merging(components))) with the captured timestamp and "
            "the caller's bounds, no component (mem, imm, any L0 file, any overlapping deeper file) can be left out -- files are skipped only by the "
            "overlap test, never by an iterator adaptor or a sub-slice --, the snapshot "
            "is captured atomically, exhaustion is tested through key(); the files of one level are key-ordered after recovery only if mutually unordered files are not flattened into it (C01.9, known finding F32).  The per-level concatenation re-seeks every file it enters (C11.7).  The wrapper cursors of the scan pipeline forward each step one-to-one (C11.2).  The merge comparator's forward and backward arms are mirror images (C11.9).  Does not decide ordering/exactly-once/seek landing.", "§4 C03"),
    "C11": ("SIBLINGS forwarding tables and mirror-image rules (bounds next/prev, concat seek/next/prev, pruning seek/next), GUARDED key-before-value tests, ORDER on the merging cursor's direction switch",
            "Decides sibling consistency of the combinators: value() presence tests are tombstone tests (key known Some), wrappers "
            "forward m to m and never cross key/value, a direction switch advances every child before flipping the comparator "
            "and rebuilding the heap and moves children by single steps only (no re-seek), every seek positions every child, pruning filters by timestamp <= snapshot, recognises "
            "tombstones and accepts an entry only after screening it against skip_key (seek and next alike); the bounds cursor "
            "re-checks both bounds after every step in both directions; the concatenating cursor leaves an exhausted child.  "
            "The pruning cursor records every entry it returns (prev as next and seek); the concatenating cursor's binary search never classifies an empty child.  A child that becomes current in the concatenating cursor is positioned by a seek of its own before it is stepped or read.  A lazy cursor stores its resting position only after its last fallible step; wrapper cursors step once per step.  The two positioned arms of the merge comparator compare the same whole keys in mirror-image directions (C11.9).  The pruning cursor treats an entry as visible only behind a branch on its own timestamp taken after the last step of the wrapped cursor (C11.4).  Does not decide the combinator equivalences for all inputs.", "§4 C11"),
    "C07": ("who-frees analysis over Drop impls (GUARDED uniqueness test or pointee ownership), ESCAPE of the VersionRef, ORIGIN pipeline chains, ADT field-type facts; re-evaluates C06.3/5 (snapshot capture and visibility watermark)",
            "Decides the ownership/escape structure a memory-safe snapshot needs: shared memory is freed only by the Arc's pointee or "
            "behind a uniqueness test, iterators hold a clone of the list's Arc, the returned scan cursor owns the VersionRef that "
            "pins its files, every scan pipeline prunes at the captured timestamp, cursors have no borrowed fields.  A `strong_count == 2` last-handle test is made under the file manager's lock.  Every function that replaces the current version takes references for the new one first (C08.2), so a held snapshot keeps pinning its files across trivial moves.  The scan cursor's version pin is a by-value field that is never rewritten.  Does not "
            "The pruning stage branches on `timestamp <= snapshot` after every step of the cursor over the live memtable (C11.4).  decide which schedules would free memory under a live cursor.", "§4 C07"),
    "C17": ("atomic-ordering operand table with identity-only slice for Relaxed loads, ORDER with cycles (initialise before publish), value slice of the level index (bottom-up linking), who-may-call for deref/free",
            "Decides publication order and confinement: Release stores / AcqRel CAS / Acquire loads on every pointer that can be "
            "dereferenced, the successor is stored into a new node before every linking CAS (on each retry, same observed value), "
            "levels are linked bottom-up starting at level 0, raw derefs only in node_ptr::deref, frees only in the last owner's Drop.  the four searches share one skeleton (top level first, one level down at a time, right only onto a non-null node strictly before the key, answers only at level 0, pointer pairs recorded at every level) and a keyed search answers with the successor its deciding comparison examined, never a second read of the link.  The iterator reads its current node's key or value only where the node is not the head sentinel.  Does not decide lost inserts or ordered "
            "iteration under every interleaving.", "§4 C17"),
    "C14": ("constructor-discipline ORIGIN (with &mut-fill detection), operator table ORDER/MUSTPASS, const evaluation of SETSUM_PRIMES (primality), framing constants read from MIR, loop totality (iterator type, per-iteration store MUSTPASS, no early exit) of the column loops",
            "Decides the representation-invariant discipline the algebra needs: every Setsum state comes from zero, add_state or "
            "the reducing conversion; inverted states only feed add_state; each operator reaches the right primitives with the "
            "right operands; the moduli are 8 distinct primes in (2^31, 2^32); puts and tombstones are framed with distinct tags "
            "plus key and timestamp; the column loops of add_state / invert_state / hash_to_state visit every column (no element-dropping iterator, a "
            "store in every iteration, no early exit), invert_state stores prime[i] - column[i] for the same i, and the conditional subtraction "
            "happens exactly on `value >= prime` with the same column's prime after a 64-bit addition.  Does not decide the algebraic laws over values or agreement with the published definition.", "§4 C14"),
    "C15": ("field tables read from the macro-expanded MIR of every derived message (pack/pack_sz/stream/unpack agreement, WIRE_TYPE consts), TABLE reading of WireType tables, explicit-panic audit + R-ERR + implicit-bounds audit (array-bounds dataflow with same-buffer guards, interprocedural precondition of the unrolled varint decoder) over REACH(decoders); SIBLINGS pack/pack_sz delegation agreement with exact piecewise tabulation of a non-delegating Tag::pack_sz",
            "Decides table agreement and panic-freedom of explicit constructs: the derived encoders and decoder of each message "
            "mention the same (number, type, field) set with the type's wire type, numbers are unique, unknown fields are skipped; "
            "the wire-type tables are inverse; tags pack/unpack with << 3 | and >> 3 & 7 through validating constructors; no "
            "explicit panic or dropped error is reachable from a decoder, and every index / slice expression on the decode path "
            "is in range by a dominating comparison with the length of the same buffer (7 excepted sites with reasons); every hand-written "
            "Packable impl sizes through pack_sz each concrete component it writes through pack (a Tag::pack_sz that sizes the tag itself is "
            "tabulated over all valid field numbers against the varint length).  Leaf field packers always write their field (presence is decided only by Option / Vec / Box), every scalar field type announces the wire type of what it writes, and every field loop of a derived decoder can pass over an unknown field.  Packable::stream passes through write_all on every success path and no single-shot Write::write is used outside a loop in the codec crates (C15.9).  A varint decoder's growing shift sits in a loop bounded by a constant of at most ten steps.  The derived nested-message packers write tag and length on every path.  Does "
            "not decide round-trip equality or integer-overflow panics.", "§4 C15, §9.1"),
    "C16": ("TABLE reading of to/from_discriminant (inverse bijection < 16), const evaluation of tuple_key2 tag ranges, exhaustive evaluation over u8 of the descending byte map read from MIR, exact piecewise-translation tabulation of the sign-offset mapping (order isomorphism, decode inverts encode), explicit-panic audit + implicit-bounds audit with an inductive offset <= len type invariant over REACH(decoders)",
            "Claims only: the decoders of both formats reach no explicit panic construct and index their buffers in range (parser "
            "offsets never exceed the buffer, proved write by write); the type/direction code tables are "
            "inverse, four-bit and total; the compact format's tag ranges are ordered, 9 wide, disjoint and contiguous; the "
            "descending byte map is an involution that keeps the continuation bit and reverses data-bit order (its prefix-order "
            "clause fails: known finding F14); the sign-offset mapping of i32 / i64 is strictly increasing from signed to unsigned order on every "
            "value and decode is its inverse (tabulated, not sampled); the compact format's width table is exact.  tuple_key2's byte-string framing is written and read by one table (a NUL and only a NUL is followed by the escape, 00 00 ends the element, the reader undoes exactly that).  A descending element is inverted whatever its length (the empty string included).  The compact format's width decoders admit nine-tag families only.  Order preservation in general, prefix contiguity and value round-trip are NOT "
            "decided.", "§4 C16, §10"),
    "C10": ("ORDER/MUSTPASS/SIBLINGS over builder put/del/seal, ORIGIN of index keys and final-block fields, maximum encoded sizes computed from field tables of the expanded derives vs. evaluated size constants; path-wise comparison-guard proof for divide_keys",
            "Decides builder gates and format tables: length/size/sort-order gates precede every mutation and agree between put "
            "and del; accepted entries reach block, bloom filter, setsum and key-range metadata; seal writes data < index < "
            "filter < final block < flush < sync; size constants bound the encoded sizes of their messages and the trailer is "
            "the last packed fixed64; a block seek ends on a restart-anchored scan; the dividing key between two blocks is shortened "
            "only on paths whose comparisons imply it stays below the next block's first key (path-wise guard proof) and otherwise is "
            "the left key with its own timestamp; prefix compression is produced and consumed consistently (restart stores the key whole and records "
            "the offset of the entry it precedes, the shared length comes from a scan bounded by both keys comparing the same position, "
            "writer and reader both truncate to `shared` then append the fragment of the same entry).  SstCursor::seek chooses the block by the index search; a same-block shortcut must exclude the previous block's dividing key.  Does not decide enumeration/seek/lookup correctness of the cursors.", "§4 C10"),
    "C19": ("writer/reader table agreement of the serialised index: TABLE reading of the derived stub decoders' (number, wire type) switch trees vs. the field numbers and append kinds of the hand-written Builder writers (ORIGIN of builder receivers through helpers and sub-builder scopes), Tag constants of hand-written readers",
            "Decides ONE clause of C19, `serialising and re-parsing the index changes nothing`, and of that only its structural "
            "necessary condition: every field-by-field index writer emits exactly the (field number, wire type) set its reader's "
            "stub dispatches on, nested sub-builders match the nested message types, stubs written whole are the stubs read "
            "back, hand-written readers' expected tags are emitted, and the derived pack/unpack tables of scrunch's messages "
            "agree; plus two small structural clauses: all bit-vector implementations reject the same indices in access (>= len) "
            "and rank (> len), and a backward-search step returns an empty range whenever one of its input ranges is empty.  "
            "Index writers drive no loop by a zip() whose sides can differ in length.  Everything numerical in C19 (search positions, counts, rank/select/access, record mapping, extraction) is "
            "In suffix-array construction an LMS substring is named apart from its predecessor only by the first-element test or a comparison between the two.  search pushes one located offset per index of the range count() answers with (accepted form).  An absent character gets no symbol: a searched position is answered only behind an equality test.  A bounded locate walk requires sample scans that run to the end of the suffix array (C19.12).  NOT decided by static analysis and is not claimed.", "§4 C19"),
}

NA_DEFAULT = "check not built yet (DESIGN.md §8 build order); will be claimed once its rule set is armed"
NA = {
}


def main():
    props = [json.loads(l) for l in open(os.path.join(VERIF, "properties.jsonl"))]
    checks = []
    na = []
    for p in props:
        pid = p["id"]
        if pid in CLAIMS and os.path.exists(os.path.join(VERIF, "rules", pid + ".py")):
            tech, text, ref = CLAIMS[pid]
            checks.append({
                "property_id": pid,
                "quick_cmd": "./check %s --tier quick" % pid,
                "thorough_cmd": "./check %s --tier thorough" % pid,
                "evidence_file": "evidence/%s.json" % pid,
                "replay_cmd_template": "./check --replay {path}",
                "engine": "bluecheck",
                "level_claimed": {"category": "other", "text": text, "design_ref": ref},
                "level_note": BASE_NOTE,
                "technique": "static analysis: " + tech,
            })
        else:
            na.append({"property_id": pid, "reason": NA.get(pid, NA_DEFAULT)})
    m = {
        "version": 1,
        "setup_cmd": "./setup.sh",
        "hooks": {"guard": "rescrv_blue_verif",
                  "enable": "none: the checks analyse the unmodified `cargo +nightly check` build; no hook code exists in /repo",
                  "baseline_off_cmd": "cd /repo && cargo test --workspace --no-fail-fast --offline",
                  "source_commits": [], "add_only": True},
        "engines": [
            {"name": "bluefacts", "path": "engine/bluefacts", "serves_properties": [c["property_id"] for c in checks],
             "kind_free_text": "rustc_private driver (RUSTC_WORKSPACE_WRAPPER under cargo +nightly check): dumps resolved MIR, ADTs, impls, consts as JSON facts"},
            {"name": "bluecheck", "path": "engine/blue", "serves_properties": [c["property_id"] for c in checks],
             "kind_free_text": "Python rule engine over the facts: CFG reachability/dominance (MUSTPASS, ORDER, GUARDED), field-sensitive ORIGIN slice, HELD lock dataflow, R-ERR, panic audit, who-may-call; rules/Cxx.py.  Before any rule runs the program is normalised: a private single-use helper that is not in the frozen table rules/known_fns.txt is spliced into its caller (engine/blue/inline.py), so extracting a helper does not hide a protocol from the rule anchored at its caller; an exception inside a rule is a fail-closed violation"},
            {"name": "mutate", "path": "tools/mutate.py", "serves_properties": [c["property_id"] for c in checks],
             "kind_free_text": "thorough-tier checker self-test: seeded source variants (mutants/, seeded/) must type-check and be reported by name"},
        ],
        "checks": checks,
        "not_applicable": na,
        "notes": "Technique family: static analysis only.  fix: commits in /repo are listed in known_findings.json (status fixed).",
    }
    with open(os.path.join(VERIF, "MANIFEST.json"), "w") as fh:
        json.dump(m, fh, indent=1)
    print("claimed:", [c["property_id"] for c in checks])


if __name__ == "__main__":
    main()
