#!/usr/bin/env python3
"""tools/mkpatch.py <out.patch> <repo-relative file> <old> <new> [<file> <old> <new> ...]
Create a unified diff (against /repo's working tree) replacing the first occurrence of <old> by <new>.
<old>/<new> may use \\n for newlines."""
import difflib, sys
out = sys.argv[1]
args = sys.argv[2:]
text = ""
for i in range(0, len(args), 3):
    f, old, new = args[i], args[i+1].replace("\\n", "\n"), args[i+2].replace("\\n", "\n")
    a = open("/repo/" + f).read()
    if old not in a:
        sys.exit("pattern not found in %s: %r" % (f, old))
    b = a.replace(old, new, 1)
    text += "".join(difflib.unified_diff(a.splitlines(True), b.splitlines(True), "a/" + f, "b/" + f))
open(out, "w").write(text)
print("wrote", out, len(text.splitlines()), "lines")
