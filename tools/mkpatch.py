#!/usr/bin/env python3
"""tools/mkpatch.py <out.patch> <repo-relative file> <old> <new> [<file> <old> <new> ...]
Create a unified diff (against /repo's working tree) replacing the first occurrence of <old> by <new>.
<old>/<new> may use \\n for newlines.  Several edits may name the same file."""
import difflib, sys
out = sys.argv[1]
args = sys.argv[2:]
orig, cur, order = {}, {}, []
for i in range(0, len(args), 3):
    f, old, new = args[i], args[i+1].replace("\\n", "\n"), args[i+2].replace("\\n", "\n")
    if f not in orig:
        orig[f] = cur[f] = open("/repo/" + f).read()
        order.append(f)
    if old not in cur[f]:
        sys.exit("pattern not found in %s: %r" % (f, old))
    cur[f] = cur[f].replace(old, new, 1)
text = ""
for f in order:
    text += "".join(difflib.unified_diff(orig[f].splitlines(True), cur[f].splitlines(True), "a/" + f, "b/" + f))
open(out, "w").write(text)
print("wrote", out, len(text.splitlines()), "lines")
