#!/usr/bin/env python3
"""Checker self-test on seeded variants (analysis of variants, not execution of rescrv/blue).

  tools/mutate.py run <dir-with-patches> [-j N]    every <prop>__<name>.patch / seeded/<id>/patch.diff
  tools/mutate.py one <patch> <prop> [<expected rule prefix>]

For each patch: copy the tracked files of /repo's working tree to a scratch dir under $TMPDIR (outside
/repo and /verif), apply the patch, extract facts from the copy (so the variant must still type-check),
run the property's rules and require a VIOLATION (optionally of the expected rule).  The scratch copy
is removed afterwards."""
import json
import os
import shutil
import subprocess
import sys
import tempfile
import time

HERE = os.path.dirname(os.path.abspath(__file__))
VERIF = os.path.dirname(HERE)
sys.path.insert(0, os.path.join(VERIF, "engine"))
sys.path.insert(0, VERIF)


def scratch_copy(repo="/repo"):
    d = tempfile.mkdtemp(prefix="bluemut-")
    files = subprocess.check_output(["git", "-C", repo, "ls-files"], text=True).split("\n")
    for f in files:
        if not f:
            continue
        src = os.path.join(repo, f)
        if not os.path.isfile(src):
            continue
        dst = os.path.join(d, f)
        os.makedirs(os.path.dirname(dst), exist_ok=True)
        shutil.copy2(src, dst)
    return d


SCOPES = {}     # patch path -> extraction scope, from the side file <patch>.json {"scope": "full"} (default: quick)


def run_one(patch, prop, expect=None, keep=False, scope=None):
    """Returns dict(result=detected|missed|nocompile|patchfail, rules=[..])."""
    t0 = time.time()
    if scope is None:
        scope = SCOPES.get(os.path.abspath(patch))
        if scope is None:
            side = os.path.abspath(patch)[:-6] + ".json"
            scope = json.load(open(side)).get("scope", "quick") if patch.endswith(".patch") and os.path.exists(side) else "quick"
    d = scratch_copy()
    try:
        r = subprocess.run(["patch", "-p1", "-s", "-i", os.path.abspath(patch)], cwd=d, capture_output=True, text=True)
        if r.returncode != 0:
            return {"patch": patch, "property": prop, "result": "patchfail", "detail": (r.stdout + r.stderr)[-400:]}
        env = dict(os.environ, VERIF_REPO=d)
        r = subprocess.run([sys.executable, os.path.join(VERIF, "tools", "mutate.py"), "_check", prop, d, scope],
                           capture_output=True, text=True, env=env)
        out = r.stdout
        if "no verdict" in out + r.stderr and r.returncode not in (0, 1):
            return {"patch": patch, "property": prop, "result": "nocompile", "detail": (out + r.stderr)[-600:]}
        try:
            res = json.loads(out.strip().split("\n")[-1])
        except Exception:
            return {"patch": patch, "property": prop, "result": "error", "detail": (out + r.stderr)[-800:]}
        rules = sorted({v["rule"] for v in res["violations"]})
        hit = [x for x in rules if (expect is None or x.startswith(expect))]
        return {"patch": os.path.basename(patch), "property": prop, "result": "detected" if hit else "missed",
                "rules": rules, "keys": [v["key"] for v in res["violations"]][:6], "wall_s": round(time.time() - t0, 1)}
    finally:
        if not keep:
            shutil.rmtree(d, ignore_errors=True)


def _check(prop, repo, scope):
    from blue import main as M
    props = M.PROPS if prop == "all" else [prop]
    vio = []
    rc = 0
    for p in props:
        if not os.path.exists(os.path.join(VERIF, "rules", p + ".py")):
            continue
        r, ctx, new, hit = M.run_property(p, "quick", repo=repo, quiet=True, write_evidence=False, scope=scope)
        rc = rc or r
        vio += [{"rule": v.rule, "key": v.key, "msg": v.message, "loc": v.loc} for v in new]
    print(json.dumps({"rc": rc, "violations": vio}))


def collect(dirpath):
    items = []
    for root, dirs, files in os.walk(dirpath):
        for f in sorted(files):
            p = os.path.join(root, f)
            if f.endswith(".patch") and "__" in f:
                prop = f.split("__")[0]
                expect = None
                meta = p[:-6] + ".json"
                if os.path.exists(meta):
                    expect = json.load(open(meta)).get("expect")
                    if json.load(open(meta)).get("scope"):
                        SCOPES[os.path.abspath(p)] = json.load(open(meta))["scope"]
                items.append((p, prop, expect))
            elif f == "patch.diff":
                meta = os.path.join(root, "meta.json")
                if os.path.exists(meta):
                    m = json.load(open(meta))
                    items.append((p, m["property"], m.get("expect_rule")))
    return items


def main(argv):
    if argv[0] == "_check":
        _check(argv[1], argv[2], argv[3])
        return 0
    if argv[0] == "one":
        r = run_one(argv[1], argv[2], argv[3] if len(argv) > 3 else None)
        print(json.dumps(r, indent=1))
        return 0 if r["result"] == "detected" else 1
    if argv[0] == "benign":
        # behaviour-preserving refactors: every property's rules must stay silent
        from concurrent.futures import ThreadPoolExecutor
        items = collect(argv[1])
        with ThreadPoolExecutor(max_workers=int(os.environ.get("VERIF_BENIGN_JOBS", "3"))) as ex:
            results = list(ex.map(lambda it: run_one(it[0], "all", None), items))
        bad = 0
        for r in results:
            ok = r["result"] == "missed"
            bad += 0 if ok else 1
            print("%-8s %-50s %s" % ("silent" if ok else "ALARM", r["patch"], ",".join(r.get("keys", [])) or r.get("detail", "")[-300:]))
        print("silent on %d / %d benign refactors" % (len(results) - bad, len(results)))
        return 0 if bad == 0 else 1
    if argv[0] == "run":
        from concurrent.futures import ThreadPoolExecutor
        items = collect(argv[1])
        only = None
        if "--prop" in argv:
            only = argv[argv.index("--prop") + 1]
            items = [i for i in items if i[1] == only]
        j = int(argv[argv.index("-j") + 1]) if "-j" in argv else 4
        with ThreadPoolExecutor(max_workers=j) as ex:
            results = list(ex.map(lambda it: run_one(*it), items))
        for r in results:
            print("%-10s %-9s %-50s %s" % (r["property"], r["result"], r["patch"], ",".join(r.get("rules", [])) or r.get("detail", "")[-200:]))
        det = sum(1 for r in results if r["result"] == "detected")
        print("detected %d / %d" % (det, len(results)))
        if "--json" in argv:
            json.dump(results, open(argv[argv.index("--json") + 1], "w"), indent=1)
        return 0 if det == len(results) else 1


if __name__ == "__main__":
    sys.exit(main(sys.argv[1:]))
