#!/bin/sh
# Build the bluefacts driver (nightly, rustc_private, no crate dependencies) and warm the
# dependency target directory.  Offline; uses only what is on disk.
set -e
cd "$(dirname "$0")"
export CARGO_NET_OFFLINE=true
(cd engine/bluefacts && cargo build --release --offline 2>&1 | tail -3)
test -x engine/bluefacts/target/release/bluefacts
mkdir -p .work evidence
# one extraction warms .work/target (registry dependencies) and the fact cache
./check --list 'lsmtk::kvs::KeyValueStore::write$' >/dev/null
echo "setup ok"
